"""C11 — the on-disk dataset cache never serves wrong data, whatever happened to the file.

(A) Cache.tla: from_config as steps (exists, read ok/fail, generate, diff, save as W writes, return) interleaved
    with faults (damage, foreign file, delete, crash anywhere): NeverWrongData / LoadableAfter / NoReadError for
    2 configs, <= 3 requests, <= 3 faults; the designs "no diff check" and "read errors not swallowed" are rejected.
(B)/(C) fault enumeration on REAL cache files in scratch directories: truncation at byte offsets, single-byte
    corruption, empty / missing file, a crash at EACH low-level write of the save, foreign files of configurations
    differing in one field, warm hits (incl. configs whose filters change the maze count).  Every request is
    observed (interposed read / generate / save), replayed through Cache's actions (Trace_Cache, Layer M) and
    judged by the property (Layer P): right data, no exception for regenerable faults, loadable file left behind.
"""
import copy
import hashlib
import io
import json
import os
import shutil
import sys
import tempfile
import zipfile
from pathlib import Path

import numpy as np

from harness import lib
from harness.checks import sys_common

CONFIGS = [
    dict(name="cA", grid_n=3, n_mazes=3, ctor="gen_dfs", ctor_kwargs={}, seed=5, endpoint_kwargs={}, filters=[], thr=None),
    dict(name="cB", grid_n=4, n_mazes=6, ctor="gen_wilson", ctor_kwargs={}, seed=7, endpoint_kwargs={}, filters=[dict(name="path_length", args=[], kwargs=dict(min_length=4))], thr=None),
    dict(name="cC", grid_n=4, n_mazes=5, ctor="gen_dfs_percolation", ctor_kwargs=dict(p=0.2), seed=9, endpoint_kwargs=dict(endpoints_not_equal=True), filters=[], thr=2),
    dict(name="cF", grid_n=4, n_mazes=10, ctor="gen_dfs", ctor_kwargs={}, seed=21, endpoint_kwargs={}, filters=[dict(name="path_length", args=[], kwargs=dict(min_length=6))], thr=None),
    dict(name="cE", grid_n=3, n_mazes=130, ctor="gen_dfs", ctor_kwargs={}, seed=13, endpoint_kwargs={}, filters=[], thr=None),
    dict(name="cD", grid_n=3, n_mazes=4, ctor="gen_dfs", ctor_kwargs=dict(do_forks=False), seed=11, endpoint_kwargs={}, filters=[dict(name="collect_generation_meta", args=[], kwargs={})], thr=None),
]


class _Crash(BaseException):
    pass


class _DyingFile:
    def __init__(self, f, k):
        self.f, self.k, self.n = f, k, 0

    def write(self, b):
        self.n += 1
        if self.k is not None and self.n > self.k:
            raise _Crash()
        return self.f.write(b)

    def __getattr__(self, a):
        return getattr(self.f, a)

    def __enter__(self):
        return self

    def __exit__(self, *a):
        return self.f.__exit__(*a)


def _digests(ds):
    out = []
    for m in ds.mazes:
        h = hashlib.sha1()
        for x, t in ((m.connection_list, np.uint8), (m.solution, np.int64), (m.start_pos, np.int64), (m.end_pos, np.int64)):
            h.update(np.asarray(x).astype(t).tobytes())
        out.append(h.hexdigest()[:16])
    return out


def _job(job):
    """one configuration x a list of faults, all in this process (reference and requests share the process)"""
    spec, faults, foreign_specs = job
    sys.stderr = open(os.devnull, "w")  # zipfile's __del__ noise after injected crashes
    import maze_dataset.dataset.maze_dataset as md
    from maze_dataset.dataset.dataset import GPTDataset
    from maze_dataset.dataset.maze_dataset import MazeDataset, MazeDatasetConfig
    from maze_dataset.generation.generators import GENERATORS_MAP

    def make_cfg(c):
        ek = {k: ([tuple(x) for x in v] if isinstance(v, list) else v) for k, v in c.get("endpoint_kwargs", {}).items()}
        kw = dict(name=c["name"], grid_n=c["grid_n"], n_mazes=c["n_mazes"], maze_ctor=GENERATORS_MAP[c["ctor"]], maze_ctor_kwargs=dict(c.get("ctor_kwargs", {})), seed=c["seed"], endpoint_kwargs=ek)
        if c.get("filters"):
            kw["applied_filters"] = [dict(name=f["name"], args=tuple(f.get("args", [])), kwargs=dict(f.get("kwargs", {}))) for f in c["filters"]]
        return MazeDatasetConfig(**kw)

    md.set_serialize_minimal_threshold(spec["thr"] if spec["thr"] is not None else 100)
    obs = {}
    o_read, o_gen, o_save = GPTDataset.__dict__["read"], MazeDataset.__dict__["generate"], GPTDataset.__dict__["save"]

    def read_w(cls, *a, **k):
        try:
            r = o_read.__func__(cls, *a, **k)
            obs["read"] = "ok"
            return r
        except BaseException:
            obs["read"] = "fail"
            raise

    def gen_w(cls, *a, **k):
        obs["generated"] = True
        return o_gen.__func__(cls, *a, **k)

    def save_w(self, *a, **k):
        obs["saved"] = True
        return o_save(self, *a, **k)

    state = {"k": None, "df": None}
    orig_open = io.open

    def patched_open(file, mode="r", *a, **k):
        f = orig_open(file, mode, *a, **k)
        if "w" in mode and str(file).endswith(".zanj"):
            state["df"] = _DyingFile(f, state["k"])
            return state["df"]
        return f

    d = lib.workdir("c11_")
    recs = []
    try:
        cfg = make_cfg(spec)
        ref = _digests(MazeDataset.from_config(make_cfg(spec), load_local=False, save_local=False, do_download=False))
        first = MazeDataset.from_config(make_cfg(spec), local_base_path=Path(d), do_download=False)
        # the cache file of a request is the documented name of the REQUESTED configuration (C18), wherever the code wrote something
        fn = os.path.join(d, make_cfg(spec).to_fname() + ".zanj")
        if not os.path.isfile(fn):
            recs.append(dict(cfg=spec["name"], fault="absent", fault_detail=["cold_request_file"], read="none", generated=True, saved=True, outcome="data", dig=_digests(first), ref=ref, after_ok=False, second_ok=True))
            return dict(cfg=spec["name"], size=0, nwrites=0, recs=recs, error=None)
        good = open(fn, "rb").read()
        # sibling request: the same configuration asked for with n_mazes = the number of mazes that survived the filters must get
        # ITS OWN dataset (n_mazes is the one field a cached file may differ in, so a file written under the wrong name would be served)
        if len(first) != spec["n_mazes"] and len(first) > 0:
            sib = dict(spec, n_mazes=len(first))
            sref = _digests(MazeDataset.from_config(make_cfg(sib), load_local=False, save_local=False, do_download=False))
            try:
                got = MazeDataset.from_config(make_cfg(sib), local_base_path=Path(d), do_download=False)
                so, sd = "data", _digests(got)
            except Exception as e:  # noqa: BLE001
                so, sd = "raise:" + type(e).__name__, []
            sfn = os.path.join(d, make_cfg(sib).to_fname() + ".zanj")
            s_after = False
            try:
                s_after = os.path.isfile(sfn) and _digests(MazeDataset.read(sfn)) == sref
            except Exception:  # noqa: BLE001
                pass
            recs.append(dict(cfg=spec["name"], fault="absent", fault_detail=["sibling_request", len(first)], read="none", generated=True, saved=True, outcome=so, dig=sd, ref=sref, after_ok=bool(s_after), second_ok=True))
            for x in os.listdir(d):
                if os.path.join(d, x) != fn:
                    os.remove(os.path.join(d, x))
        # number of low-level writes of one save
        os.remove(fn)
        zipfile.io.open = patched_open
        state["df"] = None
        MazeDataset.from_config(make_cfg(spec), local_base_path=Path(d), do_download=False)
        nwrites = state["df"].n if state["df"] else 0
        zipfile.io.open = orig_open
        foreign_bytes = {}
        for fs in foreign_specs:
            d2 = lib.workdir("c11f_")
            try:
                MazeDataset.from_config(make_cfg(fs), local_base_path=Path(d2), do_download=False)
                (f2,) = [os.path.join(d2, x) for x in os.listdir(d2)]
                foreign_bytes[fs["tag"]] = open(f2, "rb").read()
            except Exception:  # noqa: BLE001 - this foreign configuration cannot be generated: no such fault then
                pass
            finally:
                shutil.rmtree(d2, ignore_errors=True)

        def request():
            obs.clear()
            obs.update(read="none", generated=False, saved=False)
            GPTDataset.read, MazeDataset.generate, GPTDataset.save = classmethod(read_w), classmethod(gen_w), save_w
            try:
                ds = MazeDataset.from_config(make_cfg(spec), local_base_path=Path(d), do_download=False)
                return "data", _digests(ds)
            except BaseException as e:  # noqa: BLE001
                if isinstance(e, (KeyboardInterrupt, SystemExit)):
                    raise
                return "raise:" + type(e).__name__, []
            finally:
                GPTDataset.read, MazeDataset.generate, GPTDataset.save = o_read, o_gen, o_save

        for fault in faults:
            kind = fault[0]
            for x in os.listdir(d):
                p = os.path.join(d, x)
                shutil.rmtree(p) if os.path.isdir(p) else os.remove(p)
            fk = "none"
            if kind == "none":
                open(fn, "wb").write(good)
            elif kind == "absent":
                fk = "absent"
            elif kind == "empty":
                open(fn, "wb").write(b"")
                fk = "damage"
            elif kind == "truncate":
                open(fn, "wb").write(good[: fault[1] % len(good)])
                fk = "corrupt"
            elif kind in ("flip", "fliptail"):
                b = bytearray(good)
                pos = fault[1] % len(good) if kind == "flip" else len(good) - 1 - ((fault[1] - 1) % len(good))
                b[pos] ^= fault[2]
                open(fn, "wb").write(bytes(b))
                fk = "corrupt"
            elif kind == "crash":
                # an earlier request is interrupted at low-level write k of its save
                state["k"] = fault[1] % (nwrites + 1)
                zipfile.io.open = patched_open
                try:
                    MazeDataset.from_config(make_cfg(spec), local_base_path=Path(d), do_download=False)
                except _Crash:
                    pass
                except BaseException:  # noqa: BLE001
                    pass
                finally:
                    zipfile.io.open = orig_open
                    state["k"] = None
                fk = "corrupt"
            elif kind == "foreign":
                if fault[1] not in foreign_bytes:
                    continue
                open(fn, "wb").write(foreign_bytes[fault[1]])
                fk = "foreign"
            outcome, dig = request()
            ob = dict(obs)
            # afterwards: does the file load and hold exactly the reference mazes?
            after_ok = False
            try:
                after_ok = os.path.isfile(fn) and _digests(MazeDataset.read(fn)) == ref
            except BaseException:  # noqa: BLE001
                after_ok = False
            second_ok = True
            if outcome == "data":
                o2, d2_ = request()
                second_ok = o2 == "data" and d2_ == ref
            recs.append(dict(cfg=spec["name"], fault=fk, fault_detail=list(fault), read=ob["read"], generated=bool(ob["generated"]), saved=bool(ob["saved"]), outcome=outcome, dig=dig, ref=ref, after_ok=bool(after_ok), second_ok=bool(second_ok)))
        return dict(cfg=spec["name"], size=len(good), nwrites=nwrites, recs=recs, error=None)
    except BaseException as e:  # noqa: BLE001 - setup with the code under test failed: report as an observation
        if isinstance(e, (KeyboardInterrupt, SystemExit)):
            raise
        return dict(cfg=spec["name"], size=0, nwrites=0, recs=recs, error="raise:" + type(e).__name__ + ":" + str(e)[:200])
    finally:
        zipfile.io.open = orig_open
        shutil.rmtree(d, ignore_errors=True)


def foreign_variants(spec):
    out = []

    def v(tag, **chg):
        s = copy.deepcopy(spec)
        s.update(chg)
        s["tag"] = tag
        out.append(s)

    v("seed", seed=spec["seed"] + 1)
    v("grid_n", grid_n=spec["grid_n"] + 1)
    v("ctor", ctor="gen_wilson" if spec["ctor"] != "gen_wilson" else "gen_dfs", ctor_kwargs={})
    v("ctor_kwargs", ctor_kwargs=dict(spec["ctor_kwargs"], **({"do_forks": False} if spec["ctor"] == "gen_dfs" and "do_forks" not in spec["ctor_kwargs"] else {"p": 0.6} if "p" in spec["ctor_kwargs"] else {})) or spec["ctor_kwargs"])
    v("endpoint_kwargs", endpoint_kwargs=dict(spec["endpoint_kwargs"], endpoints_not_equal=not spec["endpoint_kwargs"].get("endpoints_not_equal", False)))
    v("filters", filters=spec["filters"] + [dict(name="start_end_distance", args=[], kwargs=dict(min_distance=1))])
    # provenance lists that are prefix-related to the request's, with the (tolerated-in-one-case) trailing metadata collection
    collect = dict(name="collect_generation_meta", args=[], kwargs={})
    if collect not in spec["filters"]:
        v("filters_longer_then_collect", filters=spec["filters"] + [dict(name="path_length", args=[], kwargs=dict(min_length=3)), collect])
        if spec["filters"]:
            v("filters_prefix_then_collect", filters=spec["filters"][:-1] + [collect])
    # drop variants that did not actually change anything
    return [s for s in out if any(s[k] != spec[k] for k in ("seed", "grid_n", "ctor", "ctor_kwargs", "endpoint_kwargs", "filters"))]


def synth(**over):
    r = dict(fault="corrupt", read="fail", generated=True, saved=True, outcome="data", dig=["m1", "m2"], ref=["m1", "m2"], after_ok=True, second_ok=True)
    r.update(over)
    return r


def canaries():
    return [
        (synth(dig=["m1", "zz"]), "returned_data_is_not_the_requested_dataset"),
        (synth(fault="none", read="ok", generated=False, saved=False, dig=["m1"]), "returned_data_is_not_the_requested_dataset"),
        (synth(fault="foreign", read="ok", generated=False, saved=False, dig=["o1", "o2"]), "returned_data_is_not_the_requested_dataset"),
        (synth(outcome="raise:BadZipFile", dig=[], generated=False, saved=False), "request_raised_instead_of_regenerating"),
        (synth(fault="absent", read="none", outcome="raise:ValueError", dig=[]), "request_raised_instead_of_regenerating"),
        (synth(after_ok=False), "no_loadable_file_with_the_requested_data_left_behind"),
        (synth(second_ok=False), "second_request_returns_other_data"),
        (synth(fault="damage", read="fail", generated=False, saved=False), "M:request_steps_not_explained_by_Cache"),
        (synth(fault="none", read="ok", generated=True, saved=True), "M:request_steps_not_explained_by_Cache"),
    ]


def controls():
    return [synth(), synth(fault="none", read="ok", generated=False, saved=False), synth(fault="absent", read="none"), synth(fault="foreign", read="ok", generated=False, saved=False, outcome="raise:ValueError", dig=[]),
            synth(fault="corrupt", read="ok", generated=False, saved=False), synth(fault="damage")]


def main(chk: lib.Check) -> int:
    thorough = chk.tier == "thorough"
    chk.level = "model_checking"
    chk.rule = (
        "cases = (configuration, fault on its real cache file, request): truncation at byte offsets (quick: dense stride; thorough: every offset), single-byte corruption (quick: stride x 1 mask; thorough: every byte x 3 masks), "
        "empty / missing file, crash at each low-level write of the save, foreign files differing in one field (seed, grid_n, generator, generator kwargs, endpoint options, filters), warm hits; 4 configurations "
        "(3 generators, with/without filters incl. one changing the maze count, full and minimal format). non-trivial = any fault other than 'none'/'absent'; distinct = distinct (config, fault)"
    )
    r = lib.tlc_design("Cache", "Cache_small.cfg", expect_actions=["Begin", "Exists", "Read", "GenData", "Diff", "Write", "Return", "Crash", "Damage", "Foreign", "Delete"], tag="ca")
    chk.add_model("Cache/small", r, "2 configs, W = 3 writes, <= 3 requests, <= 3 faults, every interleaving")
    lib.tlc_expect_violation("Cache", "Cache_nodiff.cfg", "NeverWrongData", tag="ca1")
    lib.tlc_expect_violation("Cache", "Cache_noswallow.cfg", "NoReadError", tag="ca2")
    chk.notes["broken_designs_rejected"] = ["no config diff check after loading", "read errors not swallowed"]
    r = lib.tlc_design("Cache", "Cache_live.cfg", tag="cal")
    chk.add_model("Cache/live", r, "progress: a request is never stuck, takes at most 6 + W steps, ends unless the process is killed; a request right after a returned one is a cache hit")
    lib.tlc_expect_violation("Cache", "Cache_unfair.cfg", "EveryRequestEnds", tag="cau")
    # unbounded in the number of requests and faults: the C11 invariants as an inductive invariant (Apalache, symbolic)
    apa = lib.apalache_inductive("MC_Cache", ["Cache.tla"], broken_sub=("CheckDiff == TRUE", "CheckDiff == FALSE"))
    chk.notes["apalache_inductive_invariant"] = apa
    if apa.get("available"):
        chk.models.append(dict(model="Cache/Apalache inductive", what="TypeOK /\\ Strengthening /\\ NeverWrongData /\\ LoadableAfter /\\ NoReadError is inductive: holds for any number of requests and faults", obligations=apa["obligations"]))
    rng = np.random.default_rng([chk.seed, 11])
    jobs = []
    for spec in CONFIGS:
        fv = foreign_variants(spec)
        base = [("none",), ("absent",), ("empty",)] + [("foreign", s["tag"]) for s in fv] + [("crash", k) for k in range(0, 40)]
        size_guess = 8000
        if thorough:
            tr = [("truncate", k) for k in range(0, size_guess)]
            fl = [("flip", k, m) for k in range(0, size_guess) for m in (0x01, 0x80, 0xFF)]
        else:
            off = int(rng.integers(0, 97))
            tr = [("truncate", k) for k in range(off, size_guess, 131)] + [("truncate", k) for k in (1, 2, 3, 21, 22, 23)]
            fl = [("flip", k, 0xFF) for k in range(off // 2, size_guess, 149)] + [("flip", k, 0x01) for k in range(off, size_guess, 733)]
            # the container's own bookkeeping is where a damaged byte is interpreted rather than checksummed: the zip central
            # directory + end record (the last few hundred bytes) and the first local header are swept densely
            fl += [("fliptail", k, m) for k in range(1, 449) for m in (0xFF, 0x01)] + [("flip", k, m) for k in range(0, 48) for m in (0xFF, 0x01)]
        # positions are taken modulo the real file size inside the job; duplicates are dropped there by the modulo only in thorough
        allf = base + tr + fl
        if spec["n_mazes"] > 100 and not thorough:
            # the large configuration (default threshold -> minimal format, metadata collected on save) gets a reduced sweep in quick
            allf = base + tr[::4] + fl[::6]
        nchunks = 16 if thorough else 8
        for i in range(nchunks):
            jobs.append((spec, allf[i::nchunks], fv))
    outs = lib.pmap(_job, jobs, chunksize=1)
    recs = []
    sizes = {}
    for (spec, _f, _fv), o in zip(jobs, outs):
        sizes[o["cfg"]] = dict(file_bytes=o["size"], low_level_writes=o["nwrites"])
        if o["error"]:
            chk.violation("cache_setup_request_failed", dict(cfg=spec, error=o["error"]), "setup")
        recs += o["recs"]
    # in thorough the modulo maps offsets beyond the file size onto earlier ones: drop duplicates
    seen, uniq = set(), []
    for r_ in recs:
        key = (r_["cfg"], json.dumps(r_["fault_detail"]))
        if r_["fault_detail"][0] in ("truncate", "flip", "fliptail", "crash"):
            fd = list(r_["fault_detail"])
            mod = sizes[r_["cfg"]]["file_bytes"] if fd[0] != "crash" else sizes[r_["cfg"]]["low_level_writes"] + 1
            fd[1] = fd[1] % max(mod, 1)
            key = (r_["cfg"], json.dumps(fd))
        if key not in seen:
            seen.add(key)
            uniq.append(r_)
    recs = uniq
    keep = ("fault", "read", "generated", "saved", "outcome", "dig", "ref", "after_ok", "second_ok")
    orecs = [{k: r_[k] for k in keep} for r_ in recs] + controls()
    lib.judge_with_canaries(chk, "Trace_Cache", orecs, canaries(), label="request", what="requests after injected faults on real cache files, replayed through Cache's actions and judged by the property",
                            case_of=lambda x: ({k: v for k, v in recs[x["id"]].items() if k not in ("dig", "ref")} | dict(n_dig=len(recs[x["id"]]["dig"]), n_ref=len(recs[x["id"]]["ref"]), spec=next(s for s in CONFIGS if s["name"] == recs[x["id"]]["cfg"]))) if x["id"] < len(recs) else "synthetic control")
    for r_ in recs:
        chk.count([r_["cfg"], r_["fault_detail"]], r_["fault"] not in ("none", "absent"))
    by = {}
    for r_ in recs:
        k = r_["fault_detail"][0]
        by[k] = by.get(k, 0) + 1
    chk.notes["faults_by_kind"] = by
    chk.notes["files"] = sizes
    chk.notes["corruptions_unnoticed_by_container_but_data_right"] = sum(1 for r_ in recs if r_["fault"] == "corrupt" and r_["read"] == "ok")
    for k in ("truncate", "flip", "crash", "foreign"):
        s_ = next((r_ for r_ in recs if r_["fault_detail"][0] == k), None)
        if s_:
            chk.sample({kk: s_[kk] for kk in ("cfg", "fault_detail", "read", "generated", "saved", "outcome", "after_ok", "second_ok")})
    # ---- the composed system (MazeSystem.tla): a request must hand out exactly the requested configuration's dataset
    # whatever was requested, filtered, saved and read before
    sys_common.run(chk, thorough)
    chk.exhaustive = thorough
    chk.assumptions = ["TLC, CommunityModules JSON, CPython/numpy", "a crash is modelled as a BaseException raised by the file object at low-level write k of zipfile (the file is left as the first k writes produced)",
                       "reference = from_config without cache in the same process", "a foreign file must not be served as the requested data; raising or regenerating are both accepted",
                       "quick: byte offsets on a stride; thorough: every offset of every configuration's file"]
    return chk.finish("Cache.tla model-checked with all fault interleavings; real requests after injected faults replayed through the model's actions and judged by the property clauses")


def replay(path: str) -> int:
    d = json.load(open(path))
    case = d["case"]
    if not isinstance(case, dict) or "fault_detail" not in case:
        print("replay: no executable case stored")
        return 0
    spec = case.get("spec") or next(s for s in CONFIGS if s["name"] == case["cfg"])
    o = _job((spec, [tuple(case["fault_detail"])], foreign_variants(spec)))
    recs = o["recs"]
    if o["error"] or not recs:
        print("replay: setup failed", o["error"])
        print(f"VIOLATION property=C11 replay={path}")
        return 1
    keep = ("fault", "read", "generated", "saved", "outcome", "dig", "ref", "after_ok", "second_ok")
    rec = {k: recs[0][k] for k in keep}
    rec["id"] = 0
    out = lib.oracle("Trace_Cache", [rec], tag="rp")
    v = [c for c in out.verdicts.get(0, []) if not c.startswith("M:")]
    print("replay verdict:", out.verdicts.get(0, []))
    if v:
        print(f"VIOLATION property=C11 replay={path}")
        return 1
    return 0
