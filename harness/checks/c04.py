"""C04 — serial dataset generation is a pure function of the configuration.

(A) RngHistory.tla: three global RNG streams under every history (draws, user reseeds, other configs, generate,
    from_config) to depth 6; Deterministic / PureFunctionOfCfg; the "copy without reseed" design is rejected.
(B) spec -> code: TLC emits histories (RngEmit: all 225 two-step histories exhaustively + `-simulate`d
    five-step behaviours); harness/rng_child.py executes them against the real library in genuine main
    processes (different PYTHONHASHSEEDs), followed by probe calls.
(C) code -> spec: the recorded observations are replayed through RngHistory's actions by Trace_Rng:
    Layer P = mazes bytewise equal to a reference produced in another process, from_config = generate +
    filters by hand, argument config unchanged; Layer M = each stream is where the model says after every action.
"""
import copy
import json
import os
import re
import shutil
import subprocess
import sys
import tempfile

import numpy as np

from harness import lib

FILTERS_B = [dict(name="path_length", args=[], kwargs=dict(min_length=3)), dict(name="start_end_distance", args=[], kwargs=dict(min_distance=2))]


def config_pairs():
    """(a, b): a uses python's `random` (dfs family), b does not (wilson / percolation) and carries two maze filters"""
    A = [
        dict(ctor="gen_dfs", ctor_kwargs={}),
        dict(ctor="gen_dfs", ctor_kwargs=dict(accessible_cells=10, do_forks=True)),
        dict(ctor="gen_dfs", ctor_kwargs=dict(max_tree_depth=5)),
        dict(ctor="gen_dfs", ctor_kwargs=dict(do_forks=False)),
        dict(ctor="gen_prim", ctor_kwargs={}),
        dict(ctor="gen_dfs_percolation", ctor_kwargs=dict(p=0.2)),
        dict(ctor="gen_dfs", ctor_kwargs={}, endpoint_kwargs=dict(deadend_start=True, endpoints_not_equal=True)),
        # proportional (float) arguments: anything that normalises them must do so on its own copy of the kwargs
        dict(ctor="gen_dfs", ctor_kwargs=dict(accessible_cells=0.5)),
        dict(ctor="gen_dfs_percolation", ctor_kwargs=dict(accessible_cells=1.0, max_tree_depth=0.5, p=0.1)),
    ]
    B = [
        dict(ctor="gen_wilson", ctor_kwargs={}),
        dict(ctor="gen_percolation", ctor_kwargs=dict(p=0.95)),
        dict(ctor="gen_wilson", ctor_kwargs={}, endpoint_kwargs=dict(deadend_end=True)),
    ]
    seeds = [(1, 2), (7, 13), (123, 5), (0, 3), (11, 0)]  # 0 is a seed like any other (falsy, but not "no seed")
    A.insert(1, dict(ctor="gen_dfs", ctor_kwargs=dict(randomized_stack=True)))
    pairs = []
    k = 0
    # every generator / kwargs variant of A appears in the first len(A) pairs (the quick tier uses exactly those)
    combos = [(i, i % len(B)) for i in range(len(A))] + [(i, j) for i in range(len(A)) for j in range(len(B)) if j != i % len(B)]
    for i, j in combos:
        a, b = A[i], B[j]
        sa, sb = seeds[k % len(seeds)]
        k += 1
        pa = dict(dict(name="a", grid_n=4 + (i % 2), n_mazes=5, seed=sa, endpoint_kwargs={}, filters=[]), **copy.deepcopy(a))
        pb = dict(dict(name="b", grid_n=4 + (j % 2), n_mazes=8, seed=sb, endpoint_kwargs={}, filters=copy.deepcopy(FILTERS_B)), **copy.deepcopy(b))
        pairs.append(dict(a=pa, b=pb, seedmap={1: sa, 2: sb}))
    return pairs


_HIST = re.compile(r'^"HIST (.*)"$')


def emit_histories(cfg, simulate=None, seed=None, depth=None):
    r = lib.tlc("RngEmit", cfg, workers=1, simulate=simulate, seed=seed, depth=depth, tag="emit", timeout=1200)
    hs = []
    for line in r.out.splitlines():
        m = _HIST.match(line.strip())
        if m:
            hs.append(json.loads(m.group(1).replace('\\"', '"')))
    if not hs:
        raise lib.MachineryError(f"RngEmit/{cfg} produced no histories\n{r.out[-1500:]}")
    return hs, r


def run_children(jobs_by_child, hashseeds):
    d = lib.workdir("c04_")
    procs = []
    for i, jobs in enumerate(jobs_by_child):
        if not jobs:
            continue
        jp, op = os.path.join(d, f"jobs{i}.json"), os.path.join(d, f"out{i}.ndjson")
        json.dump(jobs, open(jp, "w"))
        env = dict(os.environ)
        env["PYTHONHASHSEED"] = str(hashseeds[i % len(hashseeds)])
        procs.append((subprocess.Popen([sys.executable, "-W", "ignore", "-m", "harness.rng_child", jp, op], cwd=lib.VERIF, env=env, stdout=subprocess.DEVNULL, stderr=subprocess.PIPE), op, jobs, env["PYTHONHASHSEED"]))
    out = {}
    for p, op, jobs, hs in procs:
        _o, err = p.communicate(timeout=3000)
        got = {}
        if os.path.exists(op):
            for line in open(op):
                r = json.loads(line)
                r["hashseed"] = hs
                got[r["hid"]] = r
        for j in jobs:
            if j["hid"] not in got:
                got[j["hid"]] = dict(hid=j["hid"], died=True, msg=(err or b"").decode(errors="replace")[-300:], hashseed=hs)
        out.update(got)
    shutil.rmtree(d, ignore_errors=True)
    return out


def synth_trace():
    """a hand-made correct trace (independent of the code): NewConfig(2); Draw np; Generate a; FromConfig b"""
    ev = lambda a, r, s, c, py, np_, t, dig=(), ref=(), be="", af="": dict(a=a, r=r, s=s, c=c, res="ok", py=py, np=np_, torch=t, dig=list(dig), ref=list(ref), before=be, after=af)  # noqa: E731
    return dict(events=[
        ev("NewConfig", "-", 2, "-", 2, 2, 2),
        ev("Draw", "np", 0, "-", 2, 99, 2),
        ev("Generate", "-", 0, "a", 99, 1, 1, ["x1", "x2"], ["x1", "x2"], "h", "h"),
        ev("FromConfig", "-", 0, "b", 2, 2, 2, ["y1"], ["y1"], "g", "g"),
    ])


def canaries():
    c = []
    t = synth_trace()
    t["events"][2]["dig"] = ["x1", "zz"]
    c.append((t, "generated_mazes_differ_from_reference"))
    t = synth_trace()
    t["events"][3]["dig"] = ["y1", "y2"]
    c.append((t, "from_config_differs_from_generate_plus_filters"))
    t = synth_trace()
    t["events"][3]["after"] = "g2"
    c.append((t, "argument_config_modified"))
    t = synth_trace()
    t["events"][2]["after"] = "h2"
    c.append((t, "M:generate_modified_its_argument"))
    t = synth_trace()
    t["events"][3]["res"] = "raise:ValueError"
    c.append((t, "call_raised"))
    t = synth_trace()
    t["events"][2]["np"] = 99  # generate must leave numpy freshly seeded with the config's seed
    c.append((t, "M:rng_stream_not_where_the_model_says"))
    t = synth_trace()
    t["events"][0]["torch"] = 1
    c.append((t, "M:rng_stream_not_where_the_model_says"))
    return c


def main(chk: lib.Check) -> int:
    thorough = chk.tier == "thorough"
    chk.rule = (
        "cases = histories of library / RNG use emitted by TLC from RngHistory (all 225 two-step histories + simulated five-step behaviours), each executed against the real library "
        "for a pair of real configurations (dfs-family config a, wilson/percolation config b with two filters; three seed pairs) and followed by probe calls generate(a), from_config(b), generate(b), from_config(a); "
        "non-trivial = history containing at least one foreign action (draw / reseed / other config / other generate) before a probe; distinct = distinct (config pair, history)"
    )
    # ---- (A)
    r = lib.tlc_design("RngHistory", "RngHistory_small.cfg", expect_actions=["Draw", "UserSeed", "NewConfig", "Generate", "FromConfig"], tag="rh")
    chk.add_model("RngHistory/small", r, "2 seeds, 2 configs, every history of 6 steps over draw / reseed / new config / generate / from_config")
    lib.tlc_expect_violation("RngHistory", "RngHistory_noreseed.cfg", "PureFunctionOfCfg", tag="rh1")
    chk.notes["broken_design_rejected"] = "copy of the config without re-running set_reproducibility"
    # unbounded in the length of the history: PureFunctionOfCfg as an inductive invariant (Apalache, symbolic)
    apa = lib.apalache_inductive("MC_RngHistory", ["RngHistory.tla"], broken_sub=("ReseedOnCopy == TRUE", "ReseedOnCopy == FALSE"))
    chk.notes["apalache_inductive_invariant"] = apa
    if apa.get("available"):
        chk.models.append(dict(model="RngHistory/Apalache inductive", what="TypeOK /\\ PureFunctionOfCfg is inductive: base (Init => Inv) and step (Inv /\\ Next => Inv') discharged; holds for histories of any length", obligations=apa["obligations"]))
    # ---- (B) histories from the spec
    h2, r2 = emit_histories("RngEmit_2.cfg")
    chk.add_model("RngEmit/2", r2, "all two-step histories emitted")
    nsim = 3000 if thorough else 250
    h5, r5 = emit_histories("RngEmit_5.cfg", simulate=f"num={nsim}", seed=chk.seed % 100000, depth=5)
    chk.add_model("RngEmit/5 (simulate)", r5, "simulated five-step behaviours emitted")
    chk.notes["histories_emitted"] = dict(two_step_exhaustive=len(h2), five_step_simulated=len(h5))
    pairs = config_pairs()
    if not thorough:
        pairs = pairs[:10]  # = len(A) in config_pairs(): every generator / kwargs variant once
    probes = [dict(a="Generate", r="-", s=0, c="a"), dict(a="FromConfig", r="-", s=0, c="b"), dict(a="Generate", r="-", s=0, c="b"), dict(a="FromConfig", r="-", s=0, c="a")]
    jobs = []
    for k, h in enumerate(h2 + h5):
        pi = k % len(pairs)
        pr = pairs[pi]
        acts = []
        for e in h + probes:
            e = dict(e)
            if e["a"] in ("UserSeed", "NewConfig"):
                e["s_model"] = e["s"]
                e["s"] = pr["seedmap"][e["s"]]
            acts.append(e)
        jobs.append(dict(hid=k, mode="hist", pair=pi, cfgs=dict(a=pr["a"], b=pr["b"]), seeds=[pr["seedmap"][1], pr["seedmap"][2]], actions=acts, model_actions=h + probes))
    # references: one fresh interpreter per configuration (and per hash seed in thorough)
    ref_jobs = []
    ref_hs = [0, 1, 4242] if thorough else [0, 1]
    for pi, pr in enumerate(pairs):
        for c in ("a", "b"):
            for hs in ref_hs:
                ref_jobs.append(dict(hid=f"ref{pi}{c}{hs}", mode="ref", cfg=pr[c], pair=pi, c=c, hs=hs))
    nchild = lib.NCPU
    # spread big pairs: split each pair's jobs over several children
    by_child = []
    per = {}
    for j in jobs:
        per.setdefault(j["pair"], []).append(j)
    for pi, js in per.items():
        nsplit = max(1, nchild // len(per))
        for s in range(nsplit):
            by_child.append(js[s::nsplit])
    out = run_children(by_child, hashseeds=[0, 1, 4242, "random"])
    # references run under their own hash seed
    refs_out = {}
    groups = {}
    for j in ref_jobs:
        groups.setdefault(j["hs"], []).append(j)
    for hs, js in groups.items():
        refs_out.update(run_children([[j] for j in js], hashseeds=[hs]))
    refs = {}
    recs = []
    invalid_pairs = set()
    for j in ref_jobs:
        o = refs_out[j["hid"]]
        if o.get("died") or "ref" not in o:
            chk.violation("reference_generation_failed", dict(cfg=j["cfg"], msg=o.get("msg", "")), "ref")
            continue
        if j["hs"] == 0:
            refs[(j["pair"], j["c"])] = o["ref"]
            if o["ref"]["gen"][:1] == ["raise"]:
                invalid_pairs.add(j["pair"])
    # references under other hash seeds are judged like a one-event history against the hash-seed-0 reference
    for j in ref_jobs:
        o = refs_out[j["hid"]]
        if j["hs"] != 0 and "ref" in o and (j["pair"], j["c"]) in refs:
            base = refs[(j["pair"], j["c"])]
            recs.append(dict(events=[dict(a="Generate", r="-", s=0, c=j["c"], res="ok", py=99, np=99, torch=99, dig=o["ref"]["gen"], ref=base["gen"], before="", after="")], tag=dict(kind="reference_under_hashseed", hs=j["hs"], cfg=j["cfg"]), m_skip=True))
    died = 0
    chk.notes["pairs_skipped_reference_raises"] = sorted(invalid_pairs)
    for j in jobs:
        o = out[j["hid"]]
        if j["pair"] in invalid_pairs:
            continue
        if o.get("died"):
            died += 1
            chk.violation("history_process_died", dict(history=j["model_actions"], cfgs=j["cfgs"], msg=o.get("msg", "")), "hist")
            continue
        evs = []
        for e, ma in zip(o["events"], j["model_actions"]):
            ref = []
            if e["a"] in ("Generate", "FromConfig") and (j["pair"], e["c"]) in refs:
                rr = refs[(j["pair"], e["c"])]
                ref = rr["gen"] if e["a"] == "Generate" else rr["filtered"]
            sm = j["seeds"]
            mapobs = lambda v: 1 if v == sm[0] else 2 if v == sm[1] else 99  # noqa: E731
            evs.append(dict(a=e["a"], r=e["r"], s=ma["s"], c=e["c"], res=e["res"], py=mapobs(e["py"]), np=mapobs(e["np"]), torch=mapobs(e["torch"]), dig=e["dig"], ref=ref, before=e["before"], after=e["after"]))
        recs.append(dict(events=evs, tag=dict(pair=j["pair"], cfgs=j["cfgs"], history=j["model_actions"], real_seeds=j["seeds"], hashseed=o["hashseed"]), m_skip=False))
    orecs = [dict(events=r_["events"]) for r_ in recs if not r_["m_skip"]]
    tags = [r_["tag"] for r_ in recs if not r_["m_skip"]]
    lib.judge_with_canaries(chk, "Trace_Rng", orecs + [synth_trace()], canaries(), label="history", what="spec-emitted histories executed on the real library, replayed through RngHistory's actions",
                            case_of=lambda x: dict(tag=tags[x["id"]] if x["id"] < len(tags) else "synthetic", events=[{k: v for k, v in e.items() if k not in ("dig", "ref")} | dict(n_dig=len(e["dig"]), n_ref=len(e["ref"]), same=e["dig"] == e["ref"]) for e in x["events"]]), min_per_shard=20)
    # cross-process / cross-hash-seed references (Layer P only, judged in Python-free way by the same TLA+ clause on a model-free trace)
    hrecs = [r_ for r_ in recs if r_["m_skip"]]
    for r_ in hrecs:
        e = r_["events"][0]
        chk.evaluations += 1
        if e["dig"] != e["ref"]:
            chk.violation("generated_mazes_differ_from_reference", r_["tag"], "hashseed")
    for j in jobs:
        foreign = any(a["a"] in ("Draw", "UserSeed", "NewConfig") or True for a in j["model_actions"][:-4])
        chk.count([j["pair"], j["model_actions"]], foreign and len(j["model_actions"]) > 4)
    chk.sample(dict(pair=dict(a=pairs[0]["a"], b=pairs[0]["b"]), history=jobs[len(h2) + 1]["model_actions"]) if len(jobs) > len(h2) + 1 else jobs[0]["model_actions"])
    chk.sample(dict(history=jobs[5]["model_actions"]))
    chk.notes["config_pairs"] = len(pairs)
    chk.notes["reference_processes"] = len(ref_jobs)
    chk.notes["hash_seeds"] = [0, 1, 4242, "random"]
    chk.exhaustive = True
    chk.notes["exhaustive_scope"] = "all 225 two-step histories of RngHistory (x probes) on rotating config pairs; five-step histories are simulated samples"
    chk.assumptions = ["TLC, CommunityModules JSON, CPython/numpy/torch", "digest = sha1 of the raw bytes of connection_list, solution, start, end per maze", "reference = generation in a fresh interpreter per configuration",
                       "the model's two symbolic seeds are mapped to the two real config seeds of the pair"]
    return chk.finish("RngHistory model-checked (every history to depth 6); spec-emitted histories executed against the real library and replayed through the spec's actions; outputs bytewise equal to references from other processes / hash seeds")


def replay(path: str) -> int:
    d = json.load(open(path))
    case = d["case"]
    tag = case.get("tag")
    if not isinstance(tag, dict) or "history" not in tag:
        print("replay: no executable history stored")
        return 0
    sm = tag["real_seeds"]
    acts = []
    for e in tag["history"]:
        e = dict(e)
        if e["a"] in ("UserSeed", "NewConfig"):
            e["s"] = sm[e["s"] - 1]
        acts.append(e)
    job = dict(hid=0, mode="hist", cfgs=tag["cfgs"], seeds=sm, actions=acts)
    rj = [dict(hid=f"r{c}", mode="ref", cfg=tag["cfgs"][c]) for c in ("a", "b")]
    o = run_children([[job]], hashseeds=[tag.get("hashseed", 0)])[0]
    ro = run_children([[j] for j in rj], hashseeds=[0])
    bad = False
    if o.get("died"):
        bad = True
    else:
        for e in o["events"]:
            if e["res"] != "ok":
                bad = True
            if e["a"] in ("Generate", "FromConfig"):
                rr = ro[f"r{e['c']}"]["ref"]
                if e["dig"] != (rr["gen"] if e["a"] == "Generate" else rr["filtered"]) or e["before"] != e["after"]:
                    bad = True
    print("replay:", "still differs" if bad else "equal to reference")
    if bad:
        print(f"VIOLATION property=C04 replay={path}")
        return 1
    return 0
