"""C18 -- configurations round-trip exactly and have stable, discriminating identities.

(A) ConfigId.tla model-checked: over a small cross product of field values (names x grids x counts x
    seeds x generators x generator kwargs x endpoint options x filter lists) and every config that
    differs from it in exactly one field: the domain is in scope, Ser is tuple-free, Load(Ser(c)) = c,
    exactly the varied field differs, identities (an injective function of the serialized content)
    differ, identity is stable under the round trip.  Two broken variants (seed left out of the
    serialized content; tuples not restored by Load) must be rejected by TLC.
(C) Trace_ConfigId.tla judges observations of the real MazeDatasetConfig:
      cfg   stable_hash_cfg() / to_fname() of every enumerated config; the file name is assembled in
            TLA+ from the logged pieces (name, grid_n, n_mazes, generator name, decimal digits of the
            hash); hash asked twice and on an independently built twin
      rt    load(serialize(c)) and load(json.loads(json.dumps(serialize(c)))) compared field by field
            from RAW values read off the objects (typed trees: tuples vs lists are visible)
      line  configs that differ in exactly one field (all options of that field) -> pairwise distinct hashes
      fam   a whole cross product: every pair of distinct configs has distinct hashes
      proc  the same configs built in 3 fresh interpreter processes (PYTHONHASHSEED 0, 1, random):
            same hash and file name as in this process
      coll / cline  MazeDatasetCollectionConfig over member configs: members survive the JSON round trip,
            identity repeatable / stable / separating collections that differ in a member field, member
            order, member count or name (+ the 3 other processes); its file name only as Layer M

      edit / cedit  HISTORIES on one (mutable) config object: build -> hash / file name -> edit ONE field in
            place (plain attribute assignment of every field of the statement; item assignment into
            maze_ctor_kwargs / endpoint_kwargs; applied_filters.append; the library's own in-place edits:
            filter_by.collect_generation_meta() and update_self_config() on a dataset obtained from
            from_config / generate, and a copying filter) -> hash / file name again, compared with a
            FRESHLY constructed config holding the edited content and with load(serialize()) of the edited
            object (ConfigId!ESpec / HashFollowsInv at design level; variant "memo_hash" rejected); the same edit made on a COPY of the hashed
            object (copy.deepcopy / dataclasses.replace / the config loaded back from JSON): the copy's identity follows the copy's content, the
            original's identity stays; collections: the same member object listed twice and edited once, dropping every member

Interpretation decisions
  * to_fname prints hash mod 10^5 as a number (no zero padding) -- DESIGN.md section 4.
  * names are restricted to characters sanitize_fname leaves alone (alphanumerics, "_", "-", ".").
  * the maze-count piece is muutils.shorten_numerical_to_str (third party).  ConfigId!Shorten is its
    documented behaviour (plain numeral below 1000; K/M/B numeral with one decimal below ten units,
    whole units above; nearest, ties either way).  Counts that are EXACTLY 10^6 or 10^9 are not
    enumerated: muutils prints 10^6 as "1000000.0" (strict comparison in its unit search), which is a
    quirk of the third-party formatter, not of the anchored code; it is recorded in the evidence
    (notes.outside_scope_observations), not judged.
  * scope of values (ConfigId!WF): generator kwargs are JSON-native (numbers, bools, None, lists --
    start_coord is given as a LIST); endpoint coordinate lists are lists of (int, int) TUPLES; filter
    args are a TUPLE of scalars, filter kwargs a dict of scalars.  The statement only promises that
    "coordinate lists are restored as tuples"; tuples elsewhere (a tuple-valued start_coord, a tuple
    nested inside filter args) come back as lists through JSON.  Those inputs are observed and
    recorded in the evidence (notes.outside_scope_observations) but not judged.
  * the statement's file-name sentence (grid size, generator) cannot apply to a collection of configs:
    "collected-<name>-n<total count>-h<hash mod 10^5>" is judged as model conformance (Layer M) only.
  * dict key order is not varied (Python's == ignores it, the JSON text does not).
  * falsy values are ordinary values of every field (audit 2, CLASS C): name "", grid_n 0, n_mazes 0, seed 0, seq_len_min / max 0, kwargs / endpoint
    options / filter arguments holding 0, 0.0, False, None, "", [] and the collection without members are enumerated, round-tripped, put on the
    one-field lines and assigned in place in the histories.  No pair of options differs ONLY by 0 vs False (Python's == identifies them; the
    int / float pairs 1 vs 1.0, 0 vs 0.0 are kept: the serialized content differs).
  * memory (CLASS E): the statement promises an EQUAL loaded config, not an independent one -- in the unchanged library serialize() returns the
    config's own dicts and load() keeps the maze_ctor_kwargs dict of its argument (notes.outside_scope_observations.memory_shared_...).  Judged:
    the comparison of the loaded config is made against a deep snapshot taken BEFORE serialize() and, through the library's ==, against the
    live object (Layer P); "serialize / load / hashing left their operands unchanged" is Layer M (M:original_modified_by_round_trip,
    M:load_modified_its_argument, M:original_modified_by_hashing).
  * other representations of the same value (CLASS G: coordinates as lists of lists / tuple of tuples / ndarray, filter args as a list, numpy
    or float-valued ints) are outside ConfigId!WF and the type hints; observed in notes.outside_scope_observations, not judged.  grid_n is one
    int (always square): CLASS D does not apply; there are no solutions / tokens at this level: CLASS H reduces to the empty option dicts /
    filter lists / collections, which are enumerated with every option family.
  * harness guards ("H:" clauses) are never violations: _judge routes them away from Check.violation, _settle_guards decides once after the
    last batch -- exit 1 when the run has Layer-P violations (guards noted), exit 2 when guards fired alone.  The oracle evaluates a Layer-P
    clause only on the part of a record its guards vouch for (exact-verdict synthetic records in _exact()).
  * n_mazes is excluded from the library's == (compare=False); the raw field comparison includes it.
"""
import concurrent.futures as cf
import copy
import itertools
import json
import os
import subprocess
import sys

import numpy as np

from harness import lib

SPEC_GENERATORS = ["gen_dfs", "gen_wilson", "gen_percolation", "gen_dfs_percolation", "gen_prim"]  # = ConfigId!Generators
I32 = 2**31 - 1


# ------------------------------------------------------------------ typed trees (raw representation)
def tree(x):
    """total: any Python value -> {t: type name, v: payload}; the payload of a given t always has one TLA+ type"""
    if isinstance(x, bool):
        return {"t": "bool", "v": x}
    if type(x) is int:
        return {"t": "int", "v": x} if -I32 <= x <= I32 else {"t": "bigint", "v": str(x)}
    if type(x) is float:
        return {"t": "float", "v": repr(x)}
    if type(x) is str:
        return {"t": "str", "v": x}
    if x is None:
        return {"t": "NoneType", "v": 0}
    if type(x) in (list, tuple):
        return {"t": type(x).__name__, "v": [tree(y) for y in x]}
    if type(x) is dict:
        return {"t": "dict", "v": [[k if type(k) is str else f"<{type(k).__name__}>{k!r}", tree(v)] for k, v in x.items()]}
    return {"t": "other:" + type(x).__name__, "v": repr(x)[:120]}


def untree(t):
    k, v = t["t"], t["v"]
    if k in ("bool", "int", "str"):
        return v
    if k == "float":
        return float(v)
    if k == "NoneType":
        return None
    if k == "list":
        return [untree(y) for y in v]
    if k == "tuple":
        return tuple(untree(y) for y in v)
    if k == "dict":
        return {kk: untree(vv) for kk, vv in v}
    raise ValueError(k)


def desc_tree(d):
    """a requested config (the driver's own data) in the record shape of ConfigId.tla"""
    t = dict(name=d["name"], grid_n=d["grid_n"], n_mazes=d["n_mazes"], seed=d["seed"], ctor=d["ctor"], ck=tree(d["ck"]), ek=tree(d["ek"]), af=tree(d["af"]))
    if "slmin" in d:  # seq_len_min / seq_len_max when the request sets them (otherwise the class defaults)
        t.update(slmin=d["slmin"], slmax=d["slmax"])
    return t


def desc_untree(t):
    d = dict(name=t["name"], grid_n=t["grid_n"], n_mazes=t["n_mazes"], seed=t["seed"], ctor=t["ctor"], ck=untree(t["ck"]), ek=untree(t["ek"]), af=untree(t["af"]))
    if "slmin" in t:
        d.update(slmin=t["slmin"], slmax=t["slmax"])
    return d


# ------------------------------------------------------------------ the real code
def _libmods():
    from maze_dataset.dataset.maze_dataset import MazeDatasetConfig
    from maze_dataset.generation.generators import GENERATORS_MAP

    return MazeDatasetConfig, GENERATORS_MAP


def build(d):
    MDC, GM = _libmods()
    kw = dict(
        name=d["name"], grid_n=d["grid_n"], n_mazes=d["n_mazes"], seed=d["seed"], maze_ctor=GM[d["ctor"]],
        maze_ctor_kwargs=copy.deepcopy(d["ck"]), endpoint_kwargs=copy.deepcopy(d["ek"]), applied_filters=copy.deepcopy(d["af"]),
    )
    if "slmin" in d:
        kw.update(seq_len_min=d["slmin"], seq_len_max=d["slmax"])
    return MDC(**kw)


_SCALARS = [("name", "name", str, ""), ("grid_n", "grid_n", int, -1), ("n_mazes", "n_mazes", int, -1), ("seed", "seed", int, -1), ("slmin", "seq_len_min", int, -1), ("slmax", "seq_len_max", int, -1)]


def raw(c, bad, who):
    """RAW field values read off a config object; a scalar of the wrong type is replaced by a placeholder and
    named in `bad` (judged by the oracle as clause wrong_type -- logging it verbatim would be a TLC type error)"""
    out = {}
    for key, attr, typ, ph in _SCALARS:
        v = getattr(c, attr, None)
        if type(v) is typ and (typ is str or -I32 <= v <= I32):
            out[key] = v
        else:
            out[key] = ph
            bad.append(f"{who}.{key}:{type(v).__name__}")
    nm = getattr(getattr(c, "maze_ctor", None), "__name__", None)
    if type(nm) is str:
        out["ctor"] = nm
    else:
        out["ctor"] = ""
        bad.append(f"{who}.ctor:{type(nm).__name__}")
    out["ck"] = tree(getattr(c, "maze_ctor_kwargs", None))
    out["ek"] = tree(getattr(c, "endpoint_kwargs", None))
    out["af"] = tree(getattr(c, "applied_filters", None))
    return out


def _hash_fields(h, bad, who):
    """hash -> (decimal string, digit list of |h|, negative?, h mod 10^5)"""
    if type(h) is not int:
        bad.append(f"{who}:{type(h).__name__}")
        return "", ["0"], False, 0
    s = str(h)
    return s, list(str(abs(h))), h < 0, int(h % 10**5)


def _str(x, bad, who):
    if type(x) is str:
        return x
    bad.append(f"{who}:{type(x).__name__}")
    return ""


def _exc(e, stage):
    if isinstance(e, (KeyboardInterrupt, SystemExit)):
        raise e
    return f"raise:{type(e).__name__}@{stage}"


def obs_cfg(d):
    """hash / file name of one requested config + repeatability"""
    rec = dict(kind="cfg", d=desc_tree(d), res="ok", bad=[])
    stage = "build"
    try:
        c = build(d)
        bad = rec["bad"]
        o = raw(c, bad, "o")
        rec["o"] = {k: o[k] for k in ("name", "grid_n", "n_mazes", "seed", "ctor")}
        stage = "stable_hash_cfg"
        h = c.stable_hash_cfg()
        rec["hash"], rec["hd"], rec["hneg"], rec["hmod"] = _hash_fields(h, bad, "hash")
        stage = "to_fname"
        rec["fname"] = _str(c.to_fname(), bad, "fname")
        stage = "stable_hash_cfg#2"
        rec["h2"] = _hash_fields(c.stable_hash_cfg(), bad, "hash2")[0]
        stage = "twin"
        c3 = build(copy.deepcopy(d))
        rec["h3"] = _hash_fields(c3.stable_hash_cfg(), bad, "hash3")[0]
        rec["f3"] = _str(c3.to_fname(), bad, "fname3")
        rec["o_kept"] = bool(raw(c, [], "oa") == o)  # asking for hash / file name left the object's content alone (deep)
    except BaseException as e:  # noqa: BLE001 - whatever the library raises is an outcome
        rec["res"] = _exc(e, stage)
    return rec


def _ser_view(s):
    """a serialized config without the doc string and source text of the generator (large, functions of the name)"""
    if isinstance(s, dict) and isinstance(s.get("maze_ctor"), dict):
        s = dict(s)
        s["maze_ctor"] = {k: v for k, v in s["maze_ctor"].items() if k in ("__name__", "__module__")}
    return s


def obs_rt(d, path):
    rec = dict(kind="rt", path=path, d=desc_tree(d), res="ok", bad=[])
    stage = "build"
    try:
        MDC, _ = _libmods()
        bad = rec["bad"]
        c = build(d)
        rec["o"] = raw(c, bad, "o")  # deep snapshot BEFORE serialize / load: what the caller's config held
        stage = "serialize"
        s = c.serialize()
        stage = "json.dumps(serialize)"
        s2 = json.loads(json.dumps(s))
        rec["ser"] = tree(_ser_view(s2))  # the JSON-loaded serialized tree, as it was before load saw it
        arg = s2 if path == "json" else s
        pre = tree(_ser_view(arg))
        stage = "load"
        b = MDC.load(arg)
        rec["arg_kept"] = bool(tree(_ser_view(arg)) == pre)  # load did not modify its argument (deep)
        oa = raw(c, [], "oa")
        rec["o_kept"] = bool(oa == rec["o"])  # serialize + load did not modify the original (deep)
        if not rec["o_kept"]:
            rec["oa"] = oa
        rec["b"] = raw(b, bad, "b")
        rec["same_fn"] = bool(getattr(b, "maze_ctor", None) is c.maze_ctor)
        stage = "=="
        rec["lib_eq"] = bool(b == c) and bool(c == b)
        stage = "hash"
        rec["ho"] = _hash_fields(c.stable_hash_cfg(), bad, "hash_o")[0]
        rec["hb"] = _hash_fields(b.stable_hash_cfg(), bad, "hash_b")[0]
        stage = "to_fname"
        rec["fo"], rec["fb"] = _str(c.to_fname(), bad, "fname_o"), _str(b.to_fname(), bad, "fname_b")
    except BaseException as e:  # noqa: BLE001
        rec["res"] = _exc(e, stage)
    return rec


def obs_hashes(ds):
    """[(res, hash string)] for a list of requested configs (lines / families)"""
    out = []
    for d in ds:
        try:
            bad = []
            h = _hash_fields(build(d).stable_hash_cfg(), bad, "hash")[0]
            out.append(("ok" if not bad else "raise:TypeError@hash_is_" + bad[0].split(":")[1], h))
        except BaseException as e:  # noqa: BLE001
            out.append((_exc(e, "stable_hash_cfg"), ""))
    return out


def _first_bad(rs):
    return next((r for r, _ in rs if r != "ok"), "ok")


def obs_line(args):
    field, ds = args
    hs = obs_hashes(ds)
    return dict(kind="line", field=field, cfgs=[desc_tree(d) for d in ds], hashes=[h for _, h in hs], res=_first_bad(hs), bad=[])


def obs_fam(ds):
    hs = obs_hashes(ds)
    return dict(kind="fam", cfgs=[desc_tree(d) for d in ds], hashes=[h for _, h in hs], res=_first_bad(hs), bad=[])


def build_coll(spec):
    from maze_dataset.dataset.collected_dataset import MazeDatasetCollectionConfig

    return MazeDatasetCollectionConfig(name=spec["name"], maze_dataset_configs=[build(d) for d in spec["members"]])


def coll_tree(spec):
    return dict(name=spec["name"], members=[desc_tree(d) for d in spec["members"]])


def obs_coll(spec):
    rec = dict(kind="coll", d=coll_tree(spec), name=spec["name"], res="ok", bad=[])
    stage = "build"
    try:
        from maze_dataset.dataset.collected_dataset import MazeDatasetCollectionConfig

        bad = rec["bad"]
        c = build_coll(spec)
        stage = "stable_hash_cfg"
        rec["hash"], rec["hd"], rec["hneg"], rec["hmod"] = _hash_fields(c.stable_hash_cfg(), bad, "hash")
        stage = "to_fname"
        rec["fname"] = _str(c.to_fname(), bad, "fname")
        stage = "twin"
        rec["h3"] = _hash_fields(build_coll(copy.deepcopy(spec)).stable_hash_cfg(), bad, "hash3")[0]
        stage = "json.dumps(serialize)"
        s2 = json.loads(json.dumps(c.serialize()))
        stage = "load"
        b = MazeDatasetCollectionConfig.load(s2)
        rec["om"] = [raw(m, bad, f"o[{k}]") for k, m in enumerate(c.maze_dataset_configs)]
        rec["bm"] = [raw(m, bad, f"b[{k}]") for k, m in enumerate(b.maze_dataset_configs)]
        rec["bname"] = _str(b.name, bad, "b.name")
        stage = "=="
        rec["lib_eq"] = bool(b == c) and bool(c == b)
        stage = "hash"
        rec["hb"] = _hash_fields(b.stable_hash_cfg(), bad, "hash_b")[0]
    except BaseException as e:  # noqa: BLE001
        rec["res"] = _exc(e, stage)
    return rec


def obs_cline(specs):
    hs = []
    for sp in specs:
        try:
            bad = []
            h = _hash_fields(build_coll(sp).stable_hash_cfg(), bad, "hash")[0]
            hs.append(("ok" if not bad else "raise:TypeError@hash_is_" + bad[0].split(":")[1], h))
        except BaseException as e:  # noqa: BLE001
            hs.append((_exc(e, "stable_hash_cfg"), ""))
    return dict(kind="cline", colls=[coll_tree(sp) for sp in specs], hashes=[h for _, h in hs], res=_first_bad(hs), bad=[])


def coll_families(bs, n):
    """per family: a 2-member collection and its neighbours (a member changed in one field, order, count, name)"""
    fams = []
    cap = lambda m: dict(m, n_mazes=1500000) if m["n_mazes"] > 25000000 else m  # noqa: E731 - the total count must stay a 32-bit number for TLC
    for k in range(n):
        m1, m2 = cap(bs[(2 * k) % len(bs)]), cap(bs[(2 * k + 1) % len(bs)])
        base = dict(name="coll", members=[m1, m2])
        fam = [base, dict(name="coll", members=[m2, m1]), dict(name="coll", members=[m1]), dict(name="coll", members=[m1, m2, m2]), dict(name="coll2", members=[m1, m2]),
               dict(name="coll", members=[]), dict(name="coll2", members=[])]  # the empty collection (no member, 0 mazes)
        for f in FIELDS:
            small = lambda v: f != "n_mazes" or v <= 25000000  # noqa: E731
            opts = [v for v in options(f, m1) if _fk(v) != _fk(m1[f]) and small(v)]
            if opts:
                fam.append(dict(name="coll", members=[dict(m1, **{f: opts[k % len(opts)]}), m2]))
            opts = [v for v in options(f, m2) if _fk(v) != _fk(m2[f]) and small(v)]
            if opts:
                fam.append(dict(name="coll", members=[m1, dict(m2, **{f: opts[(k + 1) % len(opts)]})]))
        if _fk(m1) != _fk(m2):
            fams.append(fam)
    return fams


# ------------------------------------------------------------------ histories: hash -> edit in place -> hash
_ATTR = dict(name="name", grid_n="grid_n", n_mazes="n_mazes", seed="seed", ck="maze_ctor_kwargs", ek="endpoint_kwargs", af="applied_filters")


def _raw_to_desc(r):
    """a request for a FRESH config holding the content read off an object (harness-side; raises on values outside the tree algebra)"""
    return dict(name=r["name"], grid_n=r["grid_n"], n_mazes=r["n_mazes"], seed=r["seed"], ctor=r["ctor"], ck=untree(r["ck"]), ek=untree(r["ek"]), af=untree(r["af"]), slmin=r["slmin"], slmax=r["slmax"])


def _hf(c, bad, who):
    return _hash_fields(c.stable_hash_cfg(), bad, "hash_" + who)[0], _str(c.to_fname(), bad, "fname_" + who)


def _finish_history(rec, c, bad, load, rawfn, to_request, construct):
    """second half of every history: observe the edited object, a fresh equal config, and the reloaded copy"""
    stage = "hash after edit"
    try:
        rec["after"] = rawfn(c, bad, "after")
        rec["h1"], rec["f1"] = _hf(c, bad, "1")
    except BaseException as e:  # noqa: BLE001
        rec["res"] = _exc(e, stage)
        return rec
    try:
        req = to_request(rec["after"])  # harness-side conversion of the observed content into a request
    except Exception as e:  # noqa: BLE001
        raise lib.MachineryError(f"edited content outside the tree algebra: {rec['after']}") from e
    try:
        stage = "fresh"
        fresh = construct(req)
        rec["fresh"] = rawfn(fresh, bad, "fresh")
        rec["hf"], rec["ff"] = _hf(fresh, bad, "f")
        stage = "json.dumps(serialize)"
        s2 = json.loads(json.dumps(c.serialize()))
        stage = "load"
        b = load(s2)
        rec["reload"] = rawfn(b, bad, "reload")
        stage = "=="
        rec["leq"] = bool(b == c) and bool(c == b)
        stage = "hash of reloaded"
        rec["hl"], rec["fl"] = _hf(b, bad, "l")
    except BaseException as e:  # noqa: BLE001
        rec["res"] = _exc(e, stage)
    return rec


COPY_VIAS = ("deepcopy", "replace", "reload")


def obs_edit(args):
    """plain in-place edits: via = setattr (field <- value) | item (dict field [key] <- value) | append (applied_filters.append(value));
    via = deepcopy | replace | reload: the object is hashed, then a COPY of it (copy.deepcopy / dataclasses.replace with the new field
    value / load(json(serialize))) receives field <- value; the copy's identity must follow ITS content, the original's must stay"""
    base, via, field, value = args
    rec = dict(kind="edit", via=via, field=field, d=desc_tree(base), edit=tree(value), res="ok", bad=[])
    bad = rec["bad"]
    stage = "build"
    try:
        import dataclasses

        MDC, GM = _libmods()
        c = c0 = build(base)
        rec["before"] = raw(c, bad, "before")
        stage = "hash"
        rec["h0"], rec["f0"] = _hf(c, bad, "0")
        stage = "edit"
        v = copy.deepcopy(value)
        attr, val = ("maze_ctor", GM[v]) if field == "ctor" and via not in ("item", "append") else (_ATTR.get(field), v)
        if via == "setattr":
            setattr(c, attr, val)
        elif via == "item":
            getattr(c, _ATTR[field])[v[0]] = v[1]
        elif via == "append":
            c.applied_filters.append(v)
        elif via == "deepcopy":
            c = copy.deepcopy(c0)
            setattr(c, attr, val)
        elif via == "replace":
            c = dataclasses.replace(c0, **{attr: val})
        elif via == "reload":
            c = MDC.load(json.loads(json.dumps(c0.serialize())))
            c.stable_hash_cfg()  # the loaded copy is hashed once before it is edited
            setattr(c, attr, val)
        else:
            raise lib.MachineryError(via)
        if via in COPY_VIAS:
            stage = "hash of the original after its copy was edited"
            rec["orig_kept"] = bool(raw(c0, [], "orig") == rec["before"])
            rec["h0b"] = _hash_fields(c0.stable_hash_cfg(), bad, "hash_0b")[0]
    except lib.MachineryError:
        raise
    except BaseException as e:  # noqa: BLE001
        rec["res"] = _exc(e, stage)
        return rec
    return _finish_history(rec, c, bad, MDC.load, raw, _raw_to_desc, build)


LIB_PATHS = ["from_config+collect_generation_meta", "generate+collect_generation_meta", "from_config+update_self_config", "generate+update_self_config", "from_config+filter_path_length"]


def obs_edit_lib(args):
    """the library's own edits of a dataset's config"""
    base, path = args
    rec = dict(kind="edit", via="lib:" + path, field="*", d=desc_tree(base), edit=tree(None), res="ok", bad=[])
    bad = rec["bad"]
    stage = "build"
    try:
        from maze_dataset import MazeDataset

        MDC, _ = _libmods()
        how, op = path.split("+")
        cfg = build(base)
        stage = how
        ds = MazeDataset.from_config(cfg, load_local=False, save_local=False, do_download=False, gen_parallel=False) if how == "from_config" else MazeDataset.generate(cfg, gen_parallel=False)
        c = ds.cfg
        rec["before"] = raw(c, bad, "before")
        stage = "hash"
        rec["h0"], rec["f0"] = _hf(c, bad, "0")
        stage = op
        if op == "collect_generation_meta":
            c = ds.filter_by.collect_generation_meta().cfg
        elif op == "update_self_config":
            ds.mazes = ds.mazes[: max(1, len(ds.mazes) // 2)]
            ds.update_self_config()
            c = ds.cfg
        else:
            c = ds.filter_by.path_length(min_length=1).cfg
    except BaseException as e:  # noqa: BLE001
        rec["res"] = _exc(e, stage)
        return rec
    return _finish_history(rec, c, bad, MDC.load, raw, _raw_to_desc, build)


def raw_coll(c, bad, who):
    return dict(name=_str(getattr(c, "name", None), bad, who + ".name"), members=[raw(m, bad, f"{who}[{k}]") for k, m in enumerate(c.maze_dataset_configs)])


def obs_cedit(args):
    """in-place edits of a collection config: via = name | member_seed | member_filters | append_member | drop_member |
    alias_member_seed | drop_all_members"""
    spec, via = args
    rec = dict(kind="cedit", via=via, d=coll_tree(spec), res="ok", bad=[])
    bad = rec["bad"]
    stage = "build"
    try:
        from maze_dataset.dataset.collected_dataset import MazeDatasetCollectionConfig as CC

        c = build_coll(spec)
        rec["before"] = raw_coll(c, bad, "before")
        stage = "hash"
        rec["h0"], rec["f0"] = _hf(c, bad, "0")
        [m.stable_hash_cfg() for m in c.maze_dataset_configs]
        stage = "edit"
        if via == "name":
            c.name = spec["name"] + "_b"
        elif via == "member_seed":
            c.maze_dataset_configs[0].seed = 8 if c.maze_dataset_configs[0].seed == 7 else 7  # stays a valid 32-bit seed
        elif via == "member_filters":
            c.maze_dataset_configs[-1].applied_filters.append(_f("path_length", 2))
        elif via == "append_member":
            c.maze_dataset_configs.append(build(dict(spec["members"][0] if spec["members"] else _EXTRA_MEMBER, name="extra")))
        elif via == "alias_member_seed":
            # the SAME member object listed twice, then edited once in place: both entries change
            m = c.maze_dataset_configs[0]
            c.maze_dataset_configs.append(m)
            c.stable_hash_cfg()
            m.seed = 8 if m.seed == 7 else 7
        elif via == "drop_all_members":
            del c.maze_dataset_configs[:]  # the empty collection
        elif via == "drop_member":
            c.maze_dataset_configs.pop()
        else:
            raise lib.MachineryError(via)
    except lib.MachineryError:
        raise
    except BaseException as e:  # noqa: BLE001
        rec["res"] = _exc(e, stage)
        return rec
    return _finish_history(rec, c, bad, CC.load, raw_coll, lambda r: dict(name=r["name"], members=[_raw_to_desc(m) for m in r["members"]]), build_coll)


_EXTRA_MEMBER = dict(name="extra", grid_n=3, n_mazes=5, seed=42, ctor="gen_dfs", ck={}, ek={}, af=[])
CEDIT_VIAS = ("name", "member_seed", "member_filters", "append_member", "drop_member", "alias_member_seed", "drop_all_members")
# falsy-but-meaningful values assigned in place (CLASS C): the identity must follow them like any other value
FALSY_EDITS = [("seed", 0), ("n_mazes", 0), ("grid_n", 0), ("name", ""), ("ck", {}), ("ek", {}), ("af", [])]


def edit_jobs(bs, per_field):
    """for every base and every field of the statement: `per_field` other options assigned in place (+ item / append edits)"""
    jobs = []
    for k, b in enumerate(bs):
        for f in FIELDS:
            opts = [v for v in options(f, b) if _fk(v) != _fk(b[f])]
            for j in range(min(per_field, len(opts))):
                jobs.append((b, "setattr", f, opts[(k + j * 7) % len(opts)]))
        jobs.append((b, "append", "af", _f("path_length", 2 + k)))
        jobs.append((b, "item", "ek", ["deadend_end", not b["ek"].get("deadend_end", False)]))
        jobs.append((b, "item", "ek", ["allowed_end", [(0, k % 3), (5, 5)]]))
        if b["ctor"] != "gen_wilson":
            jobs.append((b, "item", "ck", ["lattice_dim", 3]))
        # falsy values: whole fields, one option inside endpoint_kwargs, one generator argument
        for f, v in FALSY_EDITS:
            if _fk(v) != _fk(b[f]):
                jobs.append((b, "setattr", f, v))
        if b["ek"].get("allowed_start", 0) is not None:
            jobs.append((b, "item", "ek", ["allowed_start", None]))
        if _fk(b["ek"].get("allowed_end")) != _fk([]):
            jobs.append((b, "item", "ek", ["allowed_end", []]))
        if "p" in ACCEPTS[b["ctor"]] and _fk(b["ck"].get("p")) != _fk(0.0):
            jobs.append((b, "item", "ck", ["p", 0.0]))
        # the edit made on a copy of the hashed object (deepcopy / dataclasses.replace / the loaded copy)
        for j, via in enumerate(COPY_VIAS):
            f = ("seed", "ek", "af", "grid_n", "ck", "name", "n_mazes")[(k + 2 * j) % 7]
            opts = [v for v in options(f, b) if _fk(v) != _fk(b[f])]
            if not opts:  # gen_wilson takes no kwargs
                f, opts = "seed", [v for v in SEEDS if v != b["seed"]]
            jobs.append((b, via, f, opts[(k + j) % len(opts)]))
    return jobs


def lib_bases():
    """small generatable configs (connected generators; endpoint options every 3x3 / 4x4 maze can satisfy)"""
    out = []
    for g, ck in (("gen_dfs", {}), ("gen_dfs", {"do_forks": False}), ("gen_wilson", {}), ("gen_prim", {}), ("gen_dfs_percolation", {"p": 0.2}), ("gen_percolation", {"p": 1.0})):
        out.append(dict(name="hist", grid_n=3, n_mazes=4, seed=42, ctor=g, ck=ck, ek={}, af=[]))
    out.append(dict(name="hist", grid_n=4, n_mazes=6, seed=7, ctor="gen_dfs", ck={}, ek={"endpoints_not_equal": True}, af=[]))
    return out


def obs_unit(args):
    """one requested config -> its cfg record and (optionally) both round trips"""
    d, with_rt = args
    out = [obs_cfg(d)]
    if with_rt:
        out += [obs_rt(d, "direct"), obs_rt(d, "json")]
    return out


# ------------------------------------------------------------------ other interpreter processes
CHILD_MARK = "C18CHILD:"


def child_main():
    """runs in a fresh interpreter: build the requested configs, print hash / file name of each"""
    import warnings

    warnings.filterwarnings("ignore")
    trees = json.loads(sys.stdin.read())
    out = []
    where = ""
    for t in trees:
        bad = []
        stage = "import"
        try:
            import maze_dataset

            where = str(maze_dataset.__file__)
            stage = "build"
            c = build_coll(dict(name=t["name"], members=[desc_untree(m) for m in t["members"]])) if "members" in t else build(desc_untree(t))
            stage = "stable_hash_cfg"
            h = _hash_fields(c.stable_hash_cfg(), bad, "hash")[0]
            stage = "to_fname"
            f = _str(c.to_fname(), bad, "fname")
            out.append(dict(res="ok" if not bad else "raise:TypeError@" + bad[0], hash=h, fname=f))
        except BaseException as e:  # noqa: BLE001
            out.append(dict(res=_exc(e, stage), hash="", fname=""))
    print(CHILD_MARK + json.dumps(dict(lib=where, hashseed=os.environ.get("PYTHONHASHSEED", ""), out=out)))


def _run_child(args):
    hashseed, payload = args
    env = dict(os.environ)
    env["PYTHONHASHSEED"] = hashseed
    p = subprocess.run([sys.executable, "-W", "ignore", "-c", "from harness.checks import c18; c18.child_main()"], cwd=str(lib.VERIF), env=env, input=payload, capture_output=True, text=True, timeout=3000)
    line = next((ln for ln in p.stdout.splitlines() if ln.startswith(CHILD_MARK)), None)
    if line is None:
        raise lib.MachineryError(f"child interpreter (PYTHONHASHSEED={hashseed}) produced no result: rc={p.returncode}\n{p.stderr[-1500:]}")
    return json.loads(line[len(CHILD_MARK):])


HASHSEEDS = ["0", "1", "random"]


def run_children(ds):
    payload = json.dumps([coll_tree(d) if "members" in d else desc_tree(d) for d in ds])
    with cf.ThreadPoolExecutor(max_workers=len(HASHSEEDS)) as ex:
        return list(ex.map(_run_child, [(hs, payload) for hs in HASHSEEDS]))


def proc_records(ds, mains, children):
    """mains = the cfg records of this process for the same requested configs"""
    recs = []
    for k, (d, m) in enumerate(zip(ds, mains)):
        if m["res"] != "ok":
            continue  # already judged as a cfg record
        obs = [dict(env=ch["hashseed"], res=ch["out"][k]["res"], hash=ch["out"][k]["hash"], fname=ch["out"][k]["fname"]) for ch in children]
        recs.append(dict(kind="proc", d=coll_tree(d) if "members" in d else desc_tree(d), res="ok", bad=[], hash=m["hash"], fname=m["fname"], obs=obs))
    return recs


# ------------------------------------------------------------------ the enumerated input space
# falsy-but-meaningful values are part of every field's options (CLASS C): the empty name, a 0 x 0 grid, an empty dataset (0 mazes),
# seed 0, 0 / 0.0 / None / False / "" / [] inside generator kwargs, endpoint options and filter arguments
NAMES = ["t", "test", "demo_small", "A.b-c", "7up", "x" * 24, ""]
GRIDS = [1, 2, 3, 4, 5, 8, 10, 16, 25, 100, 0]
COUNTS = [0, 1, 2, 5, 10, 100, 999, 1000, 1001, 1049, 1051, 1234, 1250, 1350, 1500, 9949, 9951, 9999, 10000, 10001, 10500, 12345, 99999, 100000, 999499, 999501, 1000001, 1500000, 25000000, 999999999, 2000000000]
SEEDS = [0, 1, 7, 42, 12345, 2**31 - 1]
_TREE = [
    {}, {"accessible_cells": 5}, {"accessible_cells": 0.5}, {"accessible_cells": 1}, {"accessible_cells": 1.0}, {"max_tree_depth": 3}, {"max_tree_depth": None},
    {"do_forks": False}, {"do_forks": True}, {"accessible_cells": 20, "max_tree_depth": 0.5, "do_forks": False}, {"start_coord": [0, 0]}, {"start_coord": [0, 1]},
    {"start_coord": [1, 0]}, {"lattice_dim": 2},
    {"accessible_cells": 0}, {"accessible_cells": 0.0}, {"max_tree_depth": 0}, {"start_coord": None}, {"accessible_cells": None, "max_tree_depth": 0.0, "do_forks": False},
    {"max_tree_depth": -1}, {"accessible_cells": 1e-07},
]
CKS = {
    "gen_dfs": _TREE + [{"randomized_stack": True}, {"randomized_stack": False}],
    "gen_prim": _TREE,
    "gen_wilson": [{}],
    "gen_percolation": [{}, {"p": 0.1}, {"p": 0.4}, {"p": 1.0}, {"p": 0.4, "start_coord": [0, 0]}, {"p": 0.4, "lattice_dim": 2}, {"p": 0.0}, {"p": 0}, {"p": 1}, {"p": None}],
    "gen_dfs_percolation": [{}, {"p": 0.1}, {"p": 0.4}, {"p": 0.1, "accessible_cells": 5}, {"p": 0.1, "max_tree_depth": 4}, {"p": 0.1, "start_coord": [1, 1]}, {"p": 0.0},
                            {"p": 0.0, "accessible_cells": 0}, {"p": 0.1, "max_tree_depth": None}],
}
# keyword arguments each generator accepts (used only to build generator lines whose kwargs make sense for every member)
ACCEPTS = {
    "gen_dfs": {"lattice_dim", "accessible_cells", "max_tree_depth", "do_forks", "randomized_stack", "start_coord"},
    "gen_prim": {"lattice_dim", "accessible_cells", "max_tree_depth", "do_forks", "start_coord"},
    "gen_wilson": set(),
    "gen_percolation": {"p", "lattice_dim", "start_coord"},
    "gen_dfs_percolation": {"p", "lattice_dim", "accessible_cells", "max_tree_depth", "start_coord"},
}
EKS = [
    {}, {"deadend_start": True}, {"deadend_start": False}, {"deadend_end": True}, {"deadend_start": True, "deadend_end": True}, {"endpoints_not_equal": True},
    {"endpoints_not_equal": False}, {"deadend_start": True, "deadend_end": True, "endpoints_not_equal": True}, {"except_when_invalid": True}, {"allowed_start": None},
    {"allowed_start": []}, {"allowed_start": [(0, 0)]}, {"allowed_start": [(0, 1)]}, {"allowed_start": [(1, 0)]}, {"allowed_end": [(0, 0)]},
    {"allowed_start": [(0, 0), (0, 1)]}, {"allowed_start": [(0, 1), (0, 0)]}, {"allowed_start": [(0, 0)], "allowed_end": [(1, 1)]},
    {"allowed_start": [(1, 1)], "allowed_end": [(0, 0)]},
    {"allowed_start": [(0, 0), (1, 1), (2, 2)], "allowed_end": [(2, 2)], "deadend_end": True, "endpoints_not_equal": True},
    {"allowed_start": [(10, 12), (3, 15)]}, {"allowed_start": [(1, 12), (103, 5)], "allowed_end": None, "deadend_start": False},
    {"except_when_invalid": False}, {"allowed_end": None}, {"allowed_end": []}, {"allowed_start": [], "allowed_end": []},
    {"allowed_start": None, "allowed_end": [], "deadend_start": False, "deadend_end": False, "endpoints_not_equal": False, "except_when_invalid": False},
    {"allowed_end": [(127, 128), (255, 256)], "deadend_end": False},
]


def _f(name, *args, **kwargs):
    return {"name": name, "args": tuple(args), "kwargs": dict(kwargs)}


AFS = [
    [], [_f("path_length", 3)], [_f("path_length", 4)], [_f("path_length", min_length=3)], [_f("start_end_distance", 2)], [_f("cut_percentile_shortest", 10.0)],
    [_f("cut_percentile_shortest", 10)], [_f("truncate_count", 5)], [_f("remove_duplicates", minimum_difference_connection_list=1, minimum_difference_solution=1)],
    [_f("remove_duplicates", 1, 1)], [_f("remove_duplicates", None, 1)], [_f("remove_duplicates_fast")], [_f("strip_generation_meta")],
    [_f("collect_generation_meta", clear_in_mazes=True, inplace=True, allow_fail=False)], [_f("path_length", 3), _f("truncate_count", 10)],
    [_f("truncate_count", 10), _f("path_length", 3)], [_f("path_length", 3), _f("path_length", 3)], [_f("my_filter", "x", True, None, 2.5, b=1, a=None)],
    [_f("path_length", 0)], [_f("path_length", min_length=0)], [_f("cut_percentile_shortest", 0.0)], [_f("cut_percentile_shortest", 0)], [_f("truncate_count", 0)],
    [_f("path_length", None)], [_f("my_filter", 0, "", None, 0.0, a=0, b=False, c="", d=None, e=0.0)], [_f("my_filter", False)],
]
FIELDS = ["name", "grid_n", "n_mazes", "seed", "ctor", "ck", "ek", "af"]


def options(field, base):
    if field == "name":
        return NAMES
    if field == "grid_n":
        return GRIDS
    if field == "n_mazes":
        return COUNTS
    if field == "seed":
        return SEEDS
    if field == "ctor":
        return [g for g in SPEC_GENERATORS if set(base["ck"]) <= ACCEPTS[g]]
    if field == "ck":
        return CKS[base["ctor"]]
    if field == "ek":
        return EKS
    return AFS


def bases(seed, n):
    """one default base per generator + n seeded random points of the full cross product"""
    out = [dict(name="test", grid_n=3, n_mazes=5, seed=42, ctor=g, ck={}, ek={}, af=[]) for g in SPEC_GENERATORS]
    for k in range(n):
        rng = np.random.default_rng([seed, 18, k])
        pick = lambda xs: xs[int(rng.integers(0, len(xs)))]  # noqa: E731
        g = SPEC_GENERATORS[k % len(SPEC_GENERATORS)]
        out.append(dict(name=pick(NAMES), grid_n=pick(GRIDS), n_mazes=pick(COUNTS), seed=pick(SEEDS), ctor=g, ck=pick(CKS[g]), ek=pick(EKS), af=pick(AFS)))
    return out


def _fk(v):
    """type-exact key of a field value (Python's == would identify 1, 1.0 and True)"""
    return json.dumps(tree(v), sort_keys=True)


def line_of(base, field):
    vals = list(options(field, base))
    if _fk(base[field]) not in [_fk(v) for v in vals]:
        vals = [base[field]] + vals
    return [dict(base, **{field: v}) for v in vals]


def cross(thorough):
    """the exhaustively swept small scope: a full cross product of a few values per field, every generator"""
    names, grids, counts, seeds = ["t", "demo_small"], [3, 10], [5, 1500], [0, 42]
    eks = [EKS[i] for i in ((0, 1, 11, 15, 16, 17) if thorough else (0, 1, 15, 16))]
    afs = [AFS[i] for i in ((0, 1, 3, 14, 15) if thorough else (0, 1, 14))]
    out = []
    for g in SPEC_GENERATORS:
        cks = CKS[g][: (3 if thorough else 2)]
        for nm, gr, n, s, ck, ek, af in itertools.product(names, grids, counts, seeds, cks, eks, afs):
            out.append(dict(name=nm, grid_n=gr, n_mazes=n, seed=s, ctor=g, ck=ck, ek=ek, af=af))
    return out


# ------------------------------------------------------------------ scope guards on the driver's own inputs
def _in_scope(d):
    def scal(x):
        return x is None or type(x) in (bool, int, float, str)

    def notup(x):
        return scal(x) or (type(x) is list and all(notup(y) for y in x)) or (type(x) is dict and all(notup(y) for y in x.values()))

    ok = type(d["ck"]) is dict and notup(d["ck"])
    ok &= all(v is None or type(v) is bool or (type(v) is list and all(type(c) is tuple and len(c) == 2 and all(type(z) is int for z in c) for c in v)) for v in d["ek"].values())
    ok &= all(set(f) == {"name", "args", "kwargs"} and type(f["args"]) is tuple and all(scal(a) for a in f["args"]) and all(scal(a) for a in f["kwargs"].values()) for f in d["af"])
    ok &= all(ch.isalnum() or ch in "._-" for ch in d["name"]) and d["n_mazes"] not in (10**6, 10**9)
    return bool(ok)


def _key(d):
    return json.dumps(desc_tree(d), sort_keys=True)


# ------------------------------------------------------------------ canaries: hand-made synthetic records
def _syn(**over):
    c = dict(
        name="demo", grid_n=10, n_mazes=5, seed=7, slmin=1, slmax=512, ctor="gen_dfs",
        ck=tree({"accessible_cells": 20}), ek=tree({"allowed_start": [(0, 0), (1, 2)], "deadend_end": True}), af=tree([_f("path_length", 3)]),
    )
    c.update(over)
    return c


def _syn_ser(c):
    return tree({
        "__format__": "MazeDatasetConfig(SerializableDataclass)", "name": c["name"], "seq_len_min": 1, "seq_len_max": 512, "seed": c["seed"],
        "applied_filters": [{"name": "path_length", "args": [3], "kwargs": {}}], "grid_n": c["grid_n"], "n_mazes": c["n_mazes"],
        "maze_ctor": {"__name__": c["ctor"], "__module__": "maze_dataset.generation.generators"}, "maze_ctor_kwargs": {"accessible_cells": 20},
        "endpoint_kwargs": {"allowed_start": [[0, 0], [1, 2]], "deadend_end": True}, "grid_shape": [c["grid_n"], c["grid_n"]],
    })


_H1 = "90817263544536271809123456789012345678901234567890123456789012345670000123"  # made-up 74-digit "hashes"
_H2 = "11111111112222222222333333333344444444445555555555666666666677777777754321"


def _syn_rt(**over):
    o = _syn()
    r = dict(kind="rt", path="json", res="ok", bad=[], o=o, b=_syn(), same_fn=True, lib_eq=True, ho=_H1, hb=_H1, fo="demo-g10-n5-a_dfs-h123", fb="demo-g10-n5-a_dfs-h123", ser=_syn_ser(o), o_kept=True, arg_kept=True)
    r.update(over)
    return r


def _syn_cfg(**over):
    r = dict(kind="cfg", res="ok", bad=[], o=dict(name="demo", grid_n=10, n_mazes=1500, seed=7, ctor="gen_dfs_percolation"), hash=_H1, hd=list(_H1), hneg=False, hmod=123, fname="demo-g10-n1.5K-a_dfs_percolation-h123", h2=_H1, h3=_H1, f3="demo-g10-n1.5K-a_dfs_percolation-h123", o_kept=True)
    r.update(over)
    return r


def _syn_coll(**over):
    ms = [_syn(), _syn(name="second")]
    r = dict(kind="coll", res="ok", bad=[], name="coll", om=ms, bm=[_syn(), _syn(name="second")], bname="coll", lib_eq=True, hash=_H1, hd=list(_H1), hneg=False, hmod=123, fname="collected-coll-n10-h123", h3=_H1, hb=_H1)
    r.update(over)
    return r


def _syn_edit(**over):
    r = dict(kind="edit", via="setattr", field="seed", res="ok", bad=[], before=_syn(), after=_syn(seed=8), fresh=_syn(seed=8), reload=_syn(seed=8), leq=True,
             h0=_H1, f0="demo-g10-n5-a_dfs-h123", h1=_H2, f1="demo-g10-n5-a_dfs-h54321", hf=_H2, ff="demo-g10-n5-a_dfs-h54321", hl=_H2, fl="demo-g10-n5-a_dfs-h54321")
    r.update(over)
    return r


def _syn_cedit(**over):
    b, a = dict(name="coll", members=[_syn(), _syn(name="second")]), dict(name="coll", members=[_syn(seed=8), _syn(name="second")])
    r = dict(kind="cedit", via="member_seed", res="ok", bad=[], before=b, after=a, fresh=copy.deepcopy(a), reload=copy.deepcopy(a), leq=True,
             h0=_H1, f0="collected-coll-n10-h123", h1=_H2, f1="collected-coll-n10-h54321", hf=_H2, ff="collected-coll-n10-h54321", hl=_H2, fl="collected-coll-n10-h54321")
    r.update(over)
    return r


def _canaries():
    d0 = {k: v for k, v in _syn().items() if k not in ("slmin", "slmax")}
    d1 = dict(d0, seed=8)
    return [
        (_syn_rt(), "__accept__"),
        (_syn_cfg(), "__accept__"),
        (_syn_cfg(o=dict(name="", grid_n=0, n_mazes=0, seed=0, ctor="gen_dfs"), fname="-g0-n0-a_dfs-h123", f3="-g0-n0-a_dfs-h123"), "__accept__"),  # falsy values are values
        (_syn_rt(b=_syn(ek=tree({"allowed_start": [[0, 0], [1, 2]], "deadend_end": True}))), "coords_not_tuples"),
        (_syn_rt(b=_syn(ek=tree({"allowed_start": [(0, 0), (2, 1)], "deadend_end": True}))), "endpoint_kwargs_changed"),
        (_syn_rt(b=_syn(ek=tree({"allowed_start": [(0, 0), (1, 2)], "deadend_end": False}))), "endpoint_kwargs_changed"),
        (_syn_rt(b=_syn(af=tree([{"name": "path_length", "args": [3], "kwargs": {}}]))), "filter_args_not_tuple"),
        (_syn_rt(b=_syn(af=tree([_f("path_length", 4)]))), "filters_changed"),
        (_syn_rt(b=_syn(af=tree([]))), "filters_changed"),
        (_syn_rt(b=_syn(seed=8)), "seed_changed"),
        (_syn_rt(b=_syn(n_mazes=6)), "n_mazes_changed"),
        (_syn_rt(b=_syn(grid_n=11)), "grid_n_changed"),
        (_syn_rt(b=_syn(name="demo2")), "name_changed"),
        (_syn_rt(b=_syn(slmax=256)), "seq_len_changed"),
        (_syn_rt(b=_syn(ctor="gen_prim")), "generator_changed"),
        (_syn_rt(same_fn=False), "generator_changed"),
        (_syn_rt(b=_syn(ck=tree({"accessible_cells": 20.0}))), "generator_kwargs_changed"),
        (_syn_rt(b=_syn(ck=tree({}))), "generator_kwargs_changed"),
        (_syn_rt(lib_eq=False), "not_equal_by_library"),
        (_syn_rt(hb=_H2), "hash_changed_by_round_trip"),
        (_syn_rt(fb="demo-g10-n5-a_dfs-h54321"), "fname_changed_by_round_trip"),
        (_syn_rt(res="raise:TypeError@load"), "unexpected_exception"),
        (_syn_rt(bad=["b.grid_n:str"]), "wrong_type"),
        (_syn_rt(ser=tree({"name": "demo"})), "M:ser_differs_from_model"),
        (_syn_rt(o_kept=False), "M:original_modified_by_round_trip"),
        (_syn_rt(arg_kept=False), "M:load_modified_its_argument"),
        (_syn_cfg(o_kept=False), "M:original_modified_by_hashing"),
        (_syn_rt(o=_syn(name=""), b=_syn(name="demo")), "name_changed"),                      # falsy values are values
        (_syn_rt(o=_syn(seed=0), b=_syn(seed=7)), "seed_changed"),
        (_syn_rt(o=_syn(n_mazes=0), b=_syn(n_mazes=5)), "n_mazes_changed"),
        (_syn_rt(o=_syn(ek=tree({"allowed_start": None})), b=_syn(ek=tree({}))), "endpoint_kwargs_changed"),
        (_syn_rt(o=_syn(ek=tree({"allowed_end": [], "deadend_end": False})), b=_syn(ek=tree({"allowed_end": None, "deadend_end": False}))), "endpoint_kwargs_changed"),
        (_syn_rt(o=_syn(ck=tree({"accessible_cells": 0})), b=_syn(ck=tree({"accessible_cells": 0.0}))), "generator_kwargs_changed"),
        (_syn_rt(o=_syn(ck=tree({"accessible_cells": 0})), b=_syn(ck=tree({"accessible_cells": None}))), "generator_kwargs_changed"),
        (_syn_rt(o=_syn(af=tree([_f("path_length", 0)])), b=_syn(af=tree([_f("path_length")]))), "filters_changed"),
        (_syn_rt(o=_syn(af=tree([_f("path_length", min_length=0)])), b=_syn(af=tree([_f("path_length", min_length=None)]))), "filters_changed"),
        (_syn_cfg(o=dict(name="", grid_n=0, n_mazes=0, seed=0, ctor="gen_dfs"), fname="demo-g0-n0-a_dfs-h123", f3="demo-g0-n0-a_dfs-h123"), "fname_format"),
        (_syn_cfg(fname="demo-g10-n1.5K-a_dfs_percolation-h00123"), "fname_format"),
        (_syn_cfg(fname="demo-g10-n1.5K-a_gen_dfs_percolation-h123"), "fname_format"),
        (_syn_cfg(fname="demo-g10-n1500-a_dfs_percolation-h123"), "fname_format"),
        (_syn_cfg(fname="demo-g1500-n10-a_dfs_percolation-h123"), "fname_format"),
        (_syn_cfg(fname="demo-g10-n1.5K-a_dfs-h123"), "fname_format"),
        (_syn_cfg(fname="demo-g10-n1.5K-a_dfs_percolation-h0123", hd=list(_H1[:-4] + "0123")), "fname_format"),
        (_syn_cfg(fname="demo-g10-n1.5K-a_dfs_percolation-h23"), "fname_format"),
        (_syn_cfg(h3=_H2), "hash_not_repeatable"),
        (_syn_cfg(h2=_H2), "hash_not_repeatable"),
        (_syn_cfg(f3="demo-g10-n1.5K-a_dfs_percolation-h54321"), "fname_not_repeatable"),
        (dict(kind="line", res="ok", bad=[], field="seed", cfgs=[d0, d1], hashes=[_H1, _H1]), "hash_collision:seed"),
        (dict(kind="line", res="ok", bad=[], field="seed", cfgs=[d0, d1], hashes=[_H1, _H2]), "__accept__"),
        (dict(kind="line", res="ok", bad=[], field="name", cfgs=[d0, d1], hashes=[_H1, _H2]), "H:line_malformed"),
        (dict(kind="line", res="ok", bad=[], field="ek", cfgs=[d0, dict(d0, ek=tree({"allowed_start": [(0, 0), (2, 1)], "deadend_end": True}))], hashes=[_H2, _H2]), "hash_collision:ek"),
        (dict(kind="fam", res="ok", bad=[], cfgs=[d0, d1, dict(d0, af=tree([]))], hashes=[_H1, _H2, _H1]), "hash_collision"),
        (dict(kind="fam", res="ok", bad=[], cfgs=[d0, d1, dict(d0)], hashes=[_H1, _H2, _H2]), "equal_configs_hash_differently"),
        (dict(kind="fam", res="ok", bad=[], cfgs=[d0, d1, dict(d0)], hashes=[_H1, _H2, _H1]), "__accept__"),
        (_syn_edit(), "__accept__"),
        (_syn_edit(via="lib:from_config+collect_generation_meta", field="*", after=_syn(af=tree([])), fresh=_syn(af=tree([])), reload=_syn(af=tree([]))), "__accept__"),
        (_syn_edit(h1=_H1, f1="demo-g10-n5-a_dfs-h123"), "hash_stale_after_in_place_edit"),           # the memoised hash: old hash, old name
        (_syn_edit(h1=_H1, f1="demo-g10-n5-a_dfs-h123"), "fname_stale_after_in_place_edit"),
        (_syn_edit(h1=_H1, f1="demo-g10-n5-a_dfs-h123"), "reloaded_copy_hashes_differently"),
        (_syn_edit(h1=_H1, hl=_H1), "hash_stale_after_in_place_edit"),                                 # stale everywhere: still not the fresh hash
        (_syn_edit(hf=_H1), "hash_stale_after_in_place_edit"),
        (_syn_edit(fl="demo-g10-n5-a_dfs-h123"), "reloaded_copy_hashes_differently"),
        (_syn_edit(leq=False), "reloaded_copy_not_equal"),
        (_syn_edit(reload=_syn()), "reloaded_copy_not_equal"),
        (_syn_edit(after=_syn(), fresh=_syn(), reload=_syn()), "H:edit_malformed"),
        (_syn_edit(field="name"), "H:edit_malformed"),
        (_syn_edit(res="raise:AttributeError@edit"), "unexpected_exception"),
        (_syn_edit(via="reload", orig_kept=True, h0b=_H1), "__accept__"),
        (_syn_edit(via="deepcopy", orig_kept=True, h0b=_H2), "hash_not_repeatable"),              # editing the copy moved the original's hash
        (_syn_edit(via="replace", orig_kept=False, h0b=_H2), "M:original_changed_by_editing_a_copy"),
        (_syn_edit(via="reload", orig_kept=True, h0b=_H1, h1=_H1, f1="demo-g10-n5-a_dfs-h123"), "hash_stale_after_in_place_edit"),  # the loaded copy keeps the identity it was loaded with
        (_syn_cedit(), "__accept__"),
        (_syn_cedit(h1=_H1, f1="collected-coll-n10-h123"), "hash_stale_after_in_place_edit"),
        (_syn_cedit(hl=_H1), "reloaded_copy_hashes_differently"),
        (_syn_coll(), "__accept__"),
        (_syn_coll(bm=[_syn(), _syn(name="second", af=tree([{"name": "path_length", "args": [3], "kwargs": {}}]))]), "member_changed"),
        (_syn_coll(bm=[_syn()]), "member_changed"),
        (_syn_coll(om=[], bm=[], fname="collected-coll-n0-h123"), "__accept__"),                    # the empty collection
        (_syn_coll(om=[], bm=[_syn()], fname="collected-coll-n0-h123"), "member_changed"),
        (_syn_coll(om=[], bm=[], fname="collected-coll-n-h123"), "M:collection_fname_format"),
        (_syn_coll(bm=[_syn(name="second"), _syn()]), "member_changed"),
        (_syn_coll(h3=_H2), "hash_not_repeatable"),
        (_syn_coll(hb=_H2), "hash_changed_by_round_trip"),
        (_syn_coll(fname="collected-coll-n10-h00123"), "M:collection_fname_format"),
        (dict(kind="cline", res="ok", bad=[], colls=[dict(name="coll", members=[d0, d1]), dict(name="coll", members=[d1, d0])], hashes=[_H1, _H1]), "hash_collision:collection"),
        (dict(kind="cline", res="ok", bad=[], colls=[dict(name="coll", members=[d0, d1]), dict(name="coll", members=[d0, dict(d1, grid_n=4)])], hashes=[_H2, _H2]), "hash_collision:collection"),
        (dict(kind="cline", res="ok", bad=[], colls=[dict(name="coll", members=[d0, d1]), dict(name="coll", members=[d1, d0])], hashes=[_H1, _H2]), "__accept__"),
        (dict(kind="proc", res="ok", bad=[], hash=_H1, fname="a", obs=[dict(env="0", res="ok", hash=_H1, fname="a"), dict(env="1", res="ok", hash=_H2, fname="a")]), "hash_differs_across_processes"),
        (dict(kind="proc", res="ok", bad=[], hash=_H1, fname="a", obs=[dict(env="0", res="ok", hash=_H1, fname="a"), dict(env="random", res="ok", hash=_H1, fname="b")]), "fname_differs_across_processes"),
        (dict(kind="proc", res="ok", bad=[], hash=_H1, fname="a", obs=[dict(env="0", res="ok", hash=_H1, fname="a"), dict(env="1", res="raise:KeyError@build", hash="", fname="")]), "unexpected_exception"),
    ]


def _exact():
    """synthetic records with the EXACT clause set the oracle must return: a guard must not drag a Layer-P clause along with it
    (a Layer-P clause is only evaluated on the part of a record the guards vouch for), and must not hide an independent one"""
    d0 = {k: v for k, v in _syn().items() if k not in ("slmin", "slmax")}
    return [
        # the "fresh equal config" is not equal (seed 9 instead of 8) and hashes differently: only the guard
        (_syn_edit(fresh=_syn(seed=9), hf=_H1, ff="demo-g10-n5-a_dfs-h123"), {"H:fresh_not_equal"}),
        # ... but a hash that did not move at all is still convicted next to the guard
        (_syn_edit(fresh=_syn(seed=9), hf=_H1, h1=_H1, hl=_H1), {"H:fresh_not_equal", "hash_stale_after_in_place_edit"}),
        # the edit changed nothing: an unchanged hash is not "stale"
        (_syn_edit(after=_syn(), fresh=_syn(), reload=_syn(), h1=_H1, hf=_H1, hl=_H1, f1="demo-g10-n5-a_dfs-h123", ff="demo-g10-n5-a_dfs-h123", fl="demo-g10-n5-a_dfs-h123"), {"H:edit_malformed"}),
        # a line whose two configs are equal: the equal hashes are not a collision
        (dict(kind="line", res="ok", bad=[], field="seed", cfgs=[d0, dict(d0)], hashes=[_H1, _H1]), {"H:line_malformed"}),
        # a config outside the scope (coordinates held as lists): the Layer-P comparison with the loaded copy is still made
        (_syn_rt(o=_syn(ek=tree({"allowed_start": [[0, 0], [1, 2]], "deadend_end": True}))), {"H:not_in_scope", "endpoint_kwargs_changed"}),
        (_syn_rt(o=_syn(ek=tree({"allowed_start": [[0, 0], [1, 2]], "deadend_end": True})), b=_syn(ek=tree({"allowed_start": [[0, 0], [1, 2]], "deadend_end": True}))), {"H:not_in_scope", "coords_not_tuples"}),
        (_syn_cfg(hmod=124), {"H:hmod_inconsistent"}),
        (_syn_cfg(hmod=124, h2=_H2), {"H:hmod_inconsistent", "hash_not_repeatable"}),
    ]


def _guarded_violation(chk):
    """route the oracle's "H:" clauses (harness guards) away from Check.violation: a guard is never a property violation
    (no VIOLATION line, no replay file); it is collected on the check and settled once, after every batch has been judged"""
    orig = chk.violation
    guards = chk.__dict__.setdefault("_c18_guards", [])

    def violation(clause, case, label=""):
        if clause.startswith("H:"):
            guards.append((clause, case))
            return None
        return orig(clause, case, label)

    return violation


def _judge(chk, recs, label="c18"):
    """judge with the synthetic canaries; '__accept__' canaries are sound records the oracle must NOT reject"""
    cans = _canaries()
    must = [(c, cl) for c, cl in cans if cl != "__accept__"]
    exact = [(c, set()) for c, cl in cans if cl == "__accept__"] + _exact()
    for i, (c, _) in enumerate(exact):
        c["id"] = i
    r0 = lib.oracle("Trace_ConfigId", [c for c, _ in exact], tag="sound")
    for i, (c, want) in enumerate(exact):
        got = set(r0.verdicts.get(i, []))
        if got != want:
            raise lib.MachineryError(f"oracle returns {sorted(got)} for a synthetic record that must give exactly {sorted(want)}: {json.dumps(c, default=str)[:400]}")

    def case_of(x):
        return {k: v for k, v in x.items() if k != "ser"}

    chk.violation = _guarded_violation(chk)  # instance attribute: shadows the method for this call only
    try:
        res = lib.judge_with_canaries(chk, "Trace_ConfigId", recs, must, label=label, what="cfg / rt / line / fam / proc observations of the real MazeDatasetConfig judged against ConfigId.tla", case_of=case_of)
    finally:
        del chk.violation
    return res


def _settle_guards(chk):
    """called ONCE, after the last batch: a guard says "this record is not what the driver meant to build".  Guards are never
    violations themselves.  The oracle evaluates every Layer-P clause only on the part of a record its guards vouch for, so the
    Layer-P violations of the run (chk.violations holds no "H:" clause) stand on their own: when there is one, the run is reported as
    exit 1 and the guards -- most likely a symptom of the same defect, e.g. a constructor that does not keep the seed it is given
    makes the driver's "fresh equal config" unequal -- are only noted.  Guards without any property violation in the WHOLE run
    (whatever the order of batches) are a machinery failure (exit 2)."""
    guards = chk.__dict__.get("_c18_guards", [])
    if not guards:
        return
    names = sorted({c for c, _ in guards})
    chk.notes["harness_guards_fired"] = {n: sum(1 for c, _ in guards if c == n) for n in names}
    if any(c.startswith(("H:", "M:")) for c, _ in chk.violations):
        raise lib.MachineryError(f"guard / model clause recorded as a violation: {sorted({c for c, _ in chk.violations})}")
    if chk.violations:
        print(f"NOTE property=C18 harness guard clauses {names} fired on {len(guards)} records in a run that also found property violations; guards are not judged")
        return
    first = json.dumps(guards[0][1], default=str)[:600]
    raise lib.MachineryError(f"harness guard clauses fired without any property violation: {chk.notes['harness_guards_fired']}; first record: {first}")


# ------------------------------------------------------------------ outside-scope observations (recorded, not judged)
def _outside_scope():
    MDC, GM = _libmods()
    out = {}

    def probe(label, fn):
        try:
            out[label] = fn()
        except BaseException as e:  # noqa: BLE001
            out[label] = _exc(e, "probe")

    def rt_json(**kw):
        c = MDC(name="t", grid_n=3, n_mazes=4, **kw)
        b = MDC.load(json.loads(json.dumps(c.serialize())))
        return dict(lib_eq=bool(b == c), before=repr(kw), after=repr({k: getattr(b, k) for k in kw}))

    probe("tuple_valued_start_coord_through_json", lambda: rt_json(maze_ctor_kwargs={"start_coord": (0, 0)}))
    probe("tuple_nested_in_filter_args_through_json", lambda: rt_json(applied_filters=[{"name": "f", "args": ((1, 2),), "kwargs": {}}]))
    probe("tuple_in_filter_kwargs_through_json", lambda: rt_json(applied_filters=[{"name": "f", "args": (), "kwargs": {"at": (1, 2)}}]))
    probe("ndarray_start_coord_hash", lambda: str(MDC(name="t", grid_n=3, n_mazes=4, maze_ctor_kwargs={"start_coord": np.array([0, 0])}).stable_hash_cfg())[:12])
    # other REPRESENTATIONS of the same values (CLASS G) are outside the stated scope (type hints: int, list[tuple[int, int]], args tuple):
    probe("coords_as_list_of_lists_through_json", lambda: rt_json(endpoint_kwargs={"allowed_start": [[0, 0], [1, 1]]}))
    probe("coords_as_tuple_of_tuples_through_json", lambda: rt_json(endpoint_kwargs={"allowed_start": ((0, 0), (1, 1))}))
    probe("coords_as_ndarray_hash", lambda: str(MDC(name="t", grid_n=3, n_mazes=4, endpoint_kwargs={"allowed_start": np.array([[0, 0]])}).stable_hash_cfg())[:12])
    probe("filter_args_as_list_through_json", lambda: rt_json(applied_filters=[{"name": "f", "args": [1], "kwargs": {}}]))
    probe("numpy_int_grid_n_hash", lambda: str(MDC(name="t", grid_n=np.int64(3), n_mazes=4).stable_hash_cfg())[:12])
    probe("float_valued_grid_n_fname", lambda: MDC(name="t", grid_n=3.0, n_mazes=4).to_fname())

    # memory shared between a config, its serialized form and the config loaded from it (CLASS E): the statement promises equality, not
    # independence; what IS judged: serialize / load / hashing leave their operands unchanged (o_kept, arg_kept) and the loaded copy is equal
    def sharing():
        c = MDC(name="t", grid_n=3, n_mazes=4, maze_ctor_kwargs={"p": 0.5}, endpoint_kwargs={"allowed_start": [(0, 0)]}, applied_filters=[{"name": "f", "args": (1,), "kwargs": {}}])
        s = c.serialize()
        b = MDC.load(s)
        s2 = json.loads(json.dumps(s))
        b2 = MDC.load(s2)
        return dict(
            serialized_shares_with_config={k: s[k] is getattr(c, k) for k in ("maze_ctor_kwargs", "endpoint_kwargs", "applied_filters")},
            loaded_direct_shares_with_config={k: getattr(b, k) is getattr(c, k) for k in ("maze_ctor_kwargs", "endpoint_kwargs", "applied_filters")},
            loaded_json_shares_with_argument={k: getattr(b2, k) is s2[k] for k in ("maze_ctor_kwargs", "endpoint_kwargs", "applied_filters")},
        )

    probe("memory_shared_by_serialize_and_load", sharing)
    probe("fname_n_mazes_1000000", lambda: MDC(name="t", grid_n=3, n_mazes=10**6).to_fname())
    probe("fname_n_mazes_1000000000", lambda: MDC(name="t", grid_n=3, n_mazes=10**9).to_fname())
    return out


# ------------------------------------------------------------------ main
def main(chk: lib.Check) -> int:
    thorough = chk.tier == "thorough"
    chk.rule = (
        "cases = requested configs: (i) the full cross product of 2 names x 2 grids x 2 counts x 2 seeds x every registered generator x its first 2 (thorough 3) "
        "kwargs x 4 (6) endpoint options x 3 (5) filter lists; (ii) 'lines': for 5 default + N seeded random base configs and each of the 8 fields, the base "
        "with that field replaced by every listed option (7 names, 11 grids, 31 counts, 6 seeds, compatible generators, 1-23 kwargs, 28 endpoint options, 26 filter lists; "
        "every list contains the field's falsy-but-meaningful values: empty name, 0 x 0 grid, 0 mazes, seed 0, 0 / 0.0 / None / False / '' / [] inside kwargs, endpoint options and filter arguments); "
        "each config: hash + file name (+ twin, + 3 other processes), both round trips; non-trivial = a config with a non-default generator, kwargs, endpoint options or filters"
    )
    # ---- (A) design level
    r = lib.tlc_design("ConfigId", "ConfigId_small.cfg", expect_actions=["Vary"], tag="s")
    chk.add_model("ConfigId/small", r, "2880 configs (2 names x 2 grids x 2 counts x 2 seeds x 3 generators x 3 kwargs x 5 endpoint options x 4 filter lists) x every one-field variant: WF, tuple-free Ser, Load(Ser(c)) = c, exactly one field differs, identities differ, identity stable")
    r = lib.tlc_expect_violation("ConfigId", "ConfigId_dropseed.cfg", "IdentityInv", tag="d")
    chk.add_model("ConfigId/drop_seed", r, "seed left out of the serialized content: TLC rejects IdentityInv (non-vacuity)")
    r = lib.tlc_expect_violation("ConfigId", "ConfigId_notuples.cfg", "RoundTripInv", tag="n")
    chk.add_model("ConfigId/no_tuples", r, "Load does not restore tuples: TLC rejects RoundTripInv (non-vacuity)")
    r = lib.tlc_design("ConfigId", "ConfigId_edit.cfg", expect_actions=["Observe", "Edit"], tag="e")
    chk.add_model("ConfigId/edit", r, "histories build -> Observe -> Edit(field, value) -> Observe -> Edit -> Observe over 180 configs x every field/value: an observed hash is HashKey(current content)")
    r = lib.tlc_expect_violation("ConfigId", "ConfigId_memo.cfg", "HashFollowsInv", tag="m")
    chk.add_model("ConfigId/memo_hash", r, "hash cached on the object without invalidation: TLC rejects HashFollowsInv (non-vacuity)")
    if thorough:
        r = lib.tlc_design("ConfigId", "ConfigId_full.cfg", expect_actions=["Vary"], tag="f")
        chk.add_model("ConfigId/full", r, "18144 configs (6 kwargs x 9 endpoint options x 7 filter lists, incl. falsy values 0 / 0.0 / False / None / [] ) x every one-field variant")

    # ---- (C) the library
    try:
        MDC, GM = _libmods()
        import maze_dataset

        where = str(maze_dataset.__file__)
        registered = sorted(GM)
    except BaseException as e:  # noqa: BLE001 - an import failure of the library is an observation
        chk.violation("library_import_raises", dict(kind="import", res=_exc(e, "import")), "c18")
        chk.assumptions = ["import of maze_dataset failed; no observation possible"]
        return chk.finish("the library under test could not be imported")
    if registered != sorted(SPEC_GENERATORS):
        raise lib.MachineryError(f"GENERATORS_MAP = {registered} differs from ConfigId!Generators = {sorted(SPEC_GENERATORS)}: extend the spec (GenPiece) and the driver (CKS/ACCEPTS)")
    chk.notes["library_under_test"] = where
    print(f"[C18] library under test: {where}")

    # requested configs
    bs = bases(chk.seed, 155 if thorough else 11)
    lines = []
    for b in bs:
        for f in FIELDS:
            ln = line_of(b, f)
            if len(ln) >= 2:
                lines.append((f, ln))
    cr = cross(thorough)
    units = {}  # key -> (desc, with_rt)
    for f, ln in lines:
        for k, d in enumerate(ln):
            want = f in ("ctor", "ck", "ek", "af") or k < 3
            kk = _key(d)
            units[kk] = (d, units.get(kk, (d, False))[1] or want)
    for d in cr:
        units[_key(d)] = (d, True)
    # seq_len fields take part in the round trip only
    extra = [dict(b, slmin=lo, slmax=hi) for b in bs[:10] for lo, hi in ((1, 512), (5, 5), (1, 2048), (17, 300), (0, 0), (0, 512))]
    ulist = list(units.values()) + [(d, True) for d in extra]
    for d, _ in ulist:
        if not _in_scope(d):
            raise lib.MachineryError(f"driver generated a config outside the stated scope: {d}")
    for f, ln in lines:
        for a, b in itertools.combinations(ln, 2):
            if [g for g in FIELDS if _fk(a[g]) != _fk(b[g])] != [f]:
                raise lib.MachineryError(f"malformed line for field {f}")

    unit_out = lib.pmap(obs_unit, ulist, chunksize=16)
    recs = [x for sub in unit_out for x in sub]
    recs += lib.pmap(obs_line, lines, chunksize=4)
    # families: the whole cross product (all pairs), plus one small family that contains equal configs twice
    recs.append(obs_fam(cr))
    recs.append(obs_fam([d for d, _ in ulist[: 60]] + [copy.deepcopy(d) for d, _ in ulist[: 60: 3]]))
    # collections of configs
    cfams = coll_families(bs, 24 if thorough else 4)
    cspecs = [sp for fam in cfams for sp in fam]
    if any(sum(m["n_mazes"] for m in sp["members"]) > I32 for sp in cspecs):
        raise lib.MachineryError("collection with a total maze count beyond 32 bits")
    coll_out = lib.pmap(obs_coll, cspecs, chunksize=4)
    recs += coll_out
    recs += lib.pmap(obs_cline, cfams, chunksize=1)
    # histories with in-place edits (plain assignments on every field, the library's own edit paths, collections)
    ejobs = edit_jobs(bs if thorough else bs[:16], 3 if thorough else 2)
    hist = lib.pmap(obs_edit, ejobs, chunksize=8)
    hist += lib.pmap(obs_edit_lib, [(b, p) for b in lib_bases() for p in LIB_PATHS], chunksize=2)
    hist += lib.pmap(obs_cedit, [(fam[0], via) for fam in cfams for via in CEDIT_VIAS], chunksize=2)
    hist += lib.pmap(obs_cedit, [(dict(name="coll", members=[]), via) for via in ("name", "append_member")], chunksize=1)  # histories that start from the empty collection
    recs += hist
    chk.notes["histories"] = dict(plain_edits=len(ejobs), library_paths=LIB_PATHS, library_histories=len(lib_bases()) * len(LIB_PATHS), collection_histories=len(cfams) * len(CEDIT_VIAS) + 2)
    # other interpreter processes
    stride = max(1, len(ulist) // (12000 if thorough else 400))
    pidx = sorted(set(range(0, len(ulist), stride)) | set(range(len(ulist) - len(extra), len(ulist))))
    cidx = list(range(len(cspecs))) if thorough else list(range(0, len(cspecs), 3))
    pds = [ulist[i][0] for i in pidx] + [cspecs[i] for i in cidx]
    pds_main = [unit_out[i][0] for i in pidx] + [coll_out[i] for i in cidx]  # the cfg / coll records of this process
    children = run_children(pds)
    for ch in children:
        if ch["lib"] and ch["lib"] != where:
            raise lib.MachineryError(f"child interpreter imported {ch['lib']}, this process {where}")
    procs = proc_records(pds, pds_main, children)
    recs += procs

    # ---- evidence accounting
    def nontrivial(t):
        return t["ctor"] != "gen_dfs" or bool(t["ck"]["v"]) or bool(t["ek"]["v"]) or bool(t["af"]["v"])

    kinds = {}
    for x in recs:
        kinds[x["kind"]] = kinds.get(x["kind"], 0) + 1
        if x["kind"] in ("edit", "cedit"):
            chk.count([x["kind"], x["via"], x.get("field", ""), x["d"], x.get("edit", 0)], True)
        elif x["kind"] in ("coll", "cline") or "members" in x.get("d", {}):
            chk.count([x["kind"], x.get("d", x.get("hashes"))], True)
        elif x["kind"] in ("cfg", "rt", "proc"):
            chk.count([x["kind"], x.get("path", ""), x["d"]], nontrivial(x["d"]))
        elif x["kind"] == "line":
            chk.count(["line", x["field"], x["cfgs"]], True)
            chk.evaluations += len(x["cfgs"]) * (len(x["cfgs"]) - 1) // 2 - 1
        else:
            chk.count(["fam", len(x["cfgs"]), x["hashes"][:3]], True)
            chk.evaluations += len(x["cfgs"]) * (len(x["cfgs"]) - 1) // 2 - 1
    cfgs_ok = [x for x in recs if x["kind"] == "cfg" and x["res"] == "ok"]
    chk.notes["records_by_kind"] = kinds
    chk.notes["distinct_configs"] = len(units)
    chk.notes["one_field_pairs"] = sum(len(ln) * (len(ln) - 1) // 2 for _, ln in lines)
    chk.notes["all_pairs_family_size"] = len(cr)
    chk.notes["fname_cases_hash_mod_below_10000"] = sum(1 for x in cfgs_ok if x["hmod"] < 10000)
    chk.notes["fname_cases_count_at_least_1000"] = sum(1 for x in cfgs_ok if x["o"]["n_mazes"] >= 1000)
    chk.notes["processes"] = dict(configs=len(pds), hashseeds=HASHSEEDS, this_process_hashseed=os.environ.get("PYTHONHASHSEED", ""))
    chk.notes["outside_scope_observations"] = _outside_scope()
    chk.notes["canary_policy"] = "canaries are hand-made synthetic records, independent of what the code under test returned"

    def first(pred):
        return next((x for x in recs if pred(x)), None)

    for smp in (
        first(lambda x: x["kind"] == "cfg" and x["res"] == "ok" and x["o"]["n_mazes"] >= 1000 and x["hmod"] < 10000),
        (lambda x: x and {k: v for k, v in x.items() if k != "ser"})(first(lambda x: x["kind"] == "rt" and x["path"] == "json" and x["res"] == "ok" and x["d"]["ek"]["v"] and x["d"]["af"]["v"])),
        (lambda x: x and dict(kind="line", field=x["field"], n=len(x["cfgs"]), first=x["cfgs"][:2], hashes=x["hashes"][:2]))(first(lambda x: x["kind"] == "line" and x["field"] == "ek")),
        first(lambda x: x["kind"] == "proc"),
        (lambda x: x and {k: v for k, v in x.items() if k not in ("fresh", "reload", "d")})(first(lambda x: x["kind"] == "edit" and x["via"].startswith("lib:") and x["res"] == "ok")),
    ):
        if smp:
            chk.sample(smp)

    _judge(chk, recs)
    _settle_guards(chk)  # after the LAST batch
    chk.exhaustive = True
    chk.notes["exhaustive_scope"] = (
        f"the full cross product of {len(cr)} configs (2 names x 2 grids x 2 counts x 2 seeds x all 5 generators x first kwargs x selected endpoint options x selected filter lists): "
        "every config round-tripped both ways, file name judged, ALL pairs judged for distinct hashes; every option of every field on every line; beyond that the base points are seeded samples"
    )
    chk.assumptions = [
        "TLC, CommunityModules JSON reader, CPython; SHA-256 is not modelled (hash distinctness is checked on the enumerated pairs only)",
        "scope of values as in ConfigId!WF (JSON-native generator kwargs, coordinate lists of int pairs as tuples, scalar filter args/kwargs); names use only characters sanitize_fname keeps",
        "maze-count piece of the file name = documented behaviour of muutils.shorten_numerical_to_str (ties either way; exact 10^6 / 10^9 not enumerated)",
        "base points of the one-field lines are seeded samples of the cross product, not all of it",
    ]
    return chk.finish(
        "ConfigId.tla model-checked over a small cross product and all one-field variants (two broken variants rejected); every enumerated real config judged by the TLA+ "
        "oracle Trace_ConfigId: both round trips field by field from raw values, file name assembled in TLA+, one-field lines and an all-pairs family for distinct hashes, 3 other interpreter processes"
    )


# ------------------------------------------------------------------ replay
def reobserve(case):
    k = case["kind"]
    if k == "cfg":
        return obs_cfg(desc_untree(case["d"]))
    if k == "rt":
        return obs_rt(desc_untree(case["d"]), case["path"])
    if k == "line":
        return obs_line((case["field"], [desc_untree(t) for t in case["cfgs"]]))
    if k == "fam":
        return obs_fam([desc_untree(t) for t in case["cfgs"]])
    if k == "coll" or (k == "proc" and "members" in case["d"]):
        sp = dict(name=case["d"]["name"], members=[desc_untree(t) for t in case["d"]["members"]])
        if k == "coll":
            return obs_coll(sp)
        return (proc_records([sp], [obs_coll(sp)], run_children([sp])) or [obs_coll(sp)])[0]
    if k == "edit":
        base = desc_untree(case["d"])
        if case["via"].startswith("lib:"):
            return obs_edit_lib((base, case["via"][4:]))
        return obs_edit((base, case["via"], case["field"], untree(case["edit"])))
    if k == "cedit":
        return obs_cedit((dict(name=case["d"]["name"], members=[desc_untree(t) for t in case["d"]["members"]]), case["via"]))
    if k == "cline":
        return obs_cline([dict(name=c["name"], members=[desc_untree(t) for t in c["members"]]) for c in case["colls"]])
    if k == "proc":
        d = desc_untree(case["d"])
        return (proc_records([d], [obs_cfg(d)], run_children([d])) or [obs_cfg(d)])[0]
    raise lib.MachineryError(f"cannot replay kind {k}")


def replay(path: str) -> int:
    case = json.load(open(path))["case"]
    rec = reobserve(case)
    rec["id"] = 0
    out = lib.oracle("Trace_ConfigId", [rec], tag="rp")
    v = out.verdicts.get(0, [])
    show = {k: rec[k] for k in rec if k in ("kind", "path", "res", "bad", "field", "hash", "fname", "hashes", "obs", "lib_eq", "same_fn", "ho", "hb", "fo", "fb", "via", "field", "h0", "h1", "hf", "hl", "f0", "f1", "ff", "fl", "leq", "o_kept", "arg_kept", "orig_kept", "h0b")}
    print("replay:", json.dumps(show)[:700], "verdict:", v)
    if any(not c.startswith(("M:", "H:")) for c in v):
        print(f"VIOLATION property=C18 replay={path}")
        return 1
    if any(c.startswith("H:") for c in v):
        raise lib.MachineryError(f"only harness guard clauses on replay: {v}")
    return 0
