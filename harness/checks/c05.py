"""C05 — datasets survive serialization and disk round trips unchanged.

(A) Formats.tla (the three encodings, their loaders, the threshold rule, the collected-metadata map,
    collections as sequences of member encodings) model-checked: Build -> Serialize(format) -> Load for
    all solution-length vectors 1..4 of 1..4 mazes x every format (called directly / selected by each
    threshold) x metadata modes + all collections of <= 2 small members; two deliberately wrong loaders
    (soln[:len-1]; split at lengths instead of running sums) must be rejected by TLC.
(C) Trace_Formats.tla judges recorded REAL round trips: originals as raw arrays, the intermediate
    serialized arrays (maze_solution_lengths, padded / concatenated solutions, connection lists), the
    `__format__` written, the loaded arrays, raw config fields, metadata key/count maps.

Interpretation decisions (kept as narrow as the statement):
 * "equal configuration": every compared config field of the loaded dataset equals the field of the
   dataset BEFORE the call, except that a minimal-family serialization of a dataset whose metadata was
   not yet collected appends the documented provenance entry `collect_generation_meta` (the code collects
   in place; `from_config` documents that mismatch as allowed).  `n_mazes` is declared compare=False by
   the library and is therefore only a Layer-M clause.  Additionally the library's own `==` between the
   loaded config and the (post-call) config of the serialized dataset must be True (what the unit tests
   assert).
 * collected metadata: after JSON the map is keyed by the TEXT of the original keys (DESIGN.md §4);
   str(key) -> count maps are compared.  When the original had none and the minimal family collected it
   during the call, the loaded map is compared with the map the call left on the original (Layer P) and
   with Formats!Collect over the raw per-maze metadata (Layer M).
 * per-maze generation_meta of the loaded mazes is not part of the statement (not compared).
 * threshold rule (documented next to SERIALIZE_MINIMAL_THRESHOLD): n >= threshold -> minimal; None -> full.
 * the intermediate arrays are judged as Layer M (encoder and loader may legitimately change together).
"""
import json
import os
import shutil
import tempfile
import zipfile

import numpy as np

from harness import lib, mz

METHOD = {"full": "_serialize_full", "minimal": "_serialize_minimal", "cat": "_serialize_minimal_soln_cat", "serialize": "serialize"}
GENS = [
    ("gen_dfs", {}),
    ("gen_dfs", {"do_forks": False}),
    ("gen_dfs", {"accessible_cells": 0.6}),
    ("gen_wilson", {}),
    ("gen_prim", {}),
    ("gen_dfs_percolation", {"p": 0.3}),
    ("gen_percolation", {"p": 0.7}),
]
ENDPOINTS = {
    "free": {},
    "len1": {"allowed_start": [(0, 0)], "allowed_end": [(0, 0)]},
    "short": {"allowed_start": [(0, 0), (0, 1)], "allowed_end": [(0, 0), (0, 1), (1, 0), (1, 1)]},
    "deadend": {"deadend_start": True, "deadend_end": True},
}


def _lib():
    import maze_dataset.dataset.maze_dataset as md
    from maze_dataset import MazeDataset, MazeDatasetCollection, MazeDatasetCollectionConfig, MazeDatasetConfig
    from maze_dataset.generation import GENERATORS_MAP

    return md, MazeDataset, MazeDatasetConfig, MazeDatasetCollection, MazeDatasetCollectionConfig, GENERATORS_MAP


# ------------------------------------------------------------------ raw projections
def _cells(a):
    a = np.asarray(a)
    return [[int(x) for x in row] for row in a] if a.ndim == 2 else []


def proj_mazes(mazes):
    return dict(
        n=len(mazes),
        conn=[mz.raw(m.connection_list) for m in mazes],
        sol=[_cells(m.solution) for m in mazes],
        start=[[int(x) for x in m.start_pos] for m in mazes],
        end=[[int(x) for x in m.end_pos] for m in mazes],
    )


EMPTY_MAZES = dict(n=0, conn=[], sol=[], start=[], end=[])


def _js(x):
    return json.dumps(x, sort_keys=True, default=lambda o: o.tolist() if hasattr(o, "tolist") else str(o))


def proj_cfg(c):
    return dict(
        name=str(c.name),
        grid_n=int(c.grid_n),
        n_mazes=int(c.n_mazes),
        seed=int(c.seed),
        smin=int(c.seq_len_min),
        smax=int(c.seq_len_max),
        ctor=str(getattr(c.maze_ctor, "__name__", c.maze_ctor)),
        ckw=_js(c.maze_ctor_kwargs),
        ekw=_js(c.endpoint_kwargs),
        filters=[[str(f["name"]), _js(list(f.get("args", ()))), _js(f.get("kwargs", {}))] for f in c.applied_filters],
    )


EMPTY_CFG = dict(name="", grid_n=0, n_mazes=0, seed=0, smin=0, smax=0, ctor="", ckw="", ekw="", filters=[])


def proj_coll(g):
    """collected metadata -> text(key) -> count map (keys via str(): what JSON makes of them)"""
    if g is None:
        return dict(present=False, m=[])
    return dict(present=True, m=[dict(k=str(k), vc=[dict(v=str(v), n=int(n)) for v, n in d.items()]) for k, d in g.items()])


def proj_meta(gm):
    """raw per-maze generation metadata (the text of the keys is formed in TLA+)"""
    if gm is None:
        return []
    out = []
    for k, v in gm.items():
        if isinstance(v, bool):
            e = dict(kind="bool", ints=[[int(v)]], texts=[])
        elif isinstance(v, int):
            e = dict(kind="int", ints=[[int(v)]], texts=[])
        elif isinstance(v, (float, str)):
            e = dict(kind="text", ints=[], texts=[str(v)])
        elif isinstance(v, set):
            e = dict(kind="coords", ints=[[int(x) for x in t] for t in v], texts=[])
        else:
            a = np.array(v)
            if a.ndim == 1:
                e = dict(kind="coord", ints=[[int(x) for x in a]], texts=[])
            else:
                e = dict(kind="coords", ints=[[int(x) for x in t] for t in a], texts=[])
        out.append(dict(k=str(k), **e))
    return out


def proj_enc(ser):
    fmt = ser.get("__format__", "")
    e = dict(has=False, lens=[], pad=[], cat=[], conn=[], ends=[])
    if fmt in ("MazeDataset:minimal", "MazeDataset:minimal_soln_cat"):
        e["has"] = True
        e["lens"] = [int(x) for x in np.asarray(ser["maze_solution_lengths"])]
        e["conn"] = np.asarray(ser["maze_connection_lists"]).astype(int).tolist()
        if fmt == "MazeDataset:minimal":
            e["pad"] = np.asarray(ser["maze_solutions"]).astype(int).tolist()
        else:
            e["cat"] = np.asarray(ser["maze_solutions_concat"]).astype(int).tolist()
            e["ends"] = np.asarray(ser["maze_endpoints"]).astype(int).tolist()
    return e


# ------------------------------------------------------------------ dataset recipes (deterministic)
def _synthetic_meta(rng, g, i):
    k = int(rng.integers(1, g * g + 1))
    cells = [(int(a), int(b)) for a, b in rng.integers(0, g, size=(k, 2))]
    return {
        "func_name": "hand_built",
        "grid_shape": np.array([g, g]),
        "start_coord": np.array(cells[0]),
        "n_accessible_cells": int(len(set(cells))),
        "fully_connected": bool(i % 2),
        "percolation_p": float(rng.choice([0.25, 0.5])),
        "visited_cells": set(cells),
    }


def _hand_mazes(rng, g, lens, conn_kind, with_meta):
    """SolvedMaze objects with the requested solution lengths (shortest paths in random mazes)"""
    from maze_dataset.generation import LatticeMazeGenerators as G

    out = []
    for i, want in enumerate(lens):
        for _attempt in range(50):
            if conn_kind == "perc":
                conn = mz.rand_conn(rng, g, g, 0.6)
            else:
                np.random.seed(int(rng.integers(0, 2**31)))
                conn = G.gen_dfs(np.array([g, g])).connection_list
            s = (int(rng.integers(0, g)), int(rng.integers(0, g)))
            d = mz.bfs(conn, s)
            far = max(d.values())
            L = min(want, far + 1)
            if L == want or _attempt > 40:
                break
        ends = sorted(c for c, k in d.items() if k == L - 1)
        e = ends[int(rng.integers(0, len(ends)))]
        path = mz.all_shortest(conn, s, e)[0]
        out.append(mz.SolvedMaze(connection_list=conn, solution=np.array(path), generation_meta=_synthetic_meta(rng, g, i) if with_meta else None))
    return out


# the 2x2 and 3x3 serpentine mazes used by the exhaustive scope: a hamiltonian path -> every length
def _serpentine(g):
    conn = np.zeros((2, g, g), dtype=bool)
    order = []
    for r in range(g):
        cols = range(g) if r % 2 == 0 else range(g - 1, -1, -1)
        order += [(r, c) for c in cols]
    for a, b in zip(order, order[1:]):
        if a[0] != b[0]:
            conn[0, min(a[0], b[0]), a[1]] = True
        else:
            conn[1, a[0], min(a[1], b[1])] = True
    return conn, order


def _apply_mode(ds, mode):
    if mode == "collected":
        ds = ds.filter_by.collect_generation_meta()
    elif mode == "none":
        for m in ds.mazes:
            m.__dict__["generation_meta"] = None
    elif mode == "stripped":
        ds = ds.filter_by.strip_generation_meta()
    elif mode == "filtered":
        ds = ds.filter_by.path_length(min_length=1)
    elif mode == "filtered_twice":
        # the same filter with the same arguments recorded twice in a row (each record is part of the configuration)
        ds = ds.filter_by.path_length(min_length=1).filter_by.path_length(min_length=1)
    elif mode == "collected_twice":
        ds = ds.filter_by.collect_generation_meta().filter_by.collect_generation_meta()
    return ds


def _stale(ds, delta):
    """the same mazes under a configuration whose n_mazes (declared compare=False by the library: it may lag behind) says
    len + delta - what MazeDataset(cfg_written_for_another_size, mazes) gives"""
    import copy

    md, MazeDataset, *_ = _lib()
    cfg = copy.deepcopy(ds.cfg)
    cfg.n_mazes = max(0, len(ds.mazes) + delta)
    return MazeDataset(cfg, ds.mazes, generation_metadata_collected=ds.generation_metadata_collected)


def _hand_cfg(name, g, n, variant):
    """configs constructed directly (never passed through load): every config field is exercised with
    non-default values, incl. endpoint options (lists of tuples / bools), ctor kwargs, provenance entries"""
    md, MazeDataset, MazeDatasetConfig, *_rest, GENERATORS_MAP = _lib()
    if variant == 1:
        return MazeDatasetConfig(name=name, grid_n=g, n_mazes=n, maze_ctor=GENERATORS_MAP["gen_dfs_percolation"], maze_ctor_kwargs={"p": 0.25},
                                 endpoint_kwargs={"allowed_start": [(0, 0), (1, 1)], "deadend_end": True}, seed=7, seq_len_min=2, seq_len_max=99)
    if variant == 2:
        return MazeDatasetConfig(name=name, grid_n=g, n_mazes=n, maze_ctor=GENERATORS_MAP["gen_wilson"],
                                 endpoint_kwargs={"allowed_end": [(0, 1)], "deadend_start": False, "except_when_invalid": True},
                                 applied_filters=[dict(name="path_length", args=(), kwargs=dict(min_length=1)), dict(name="truncate_count", args=(50,), kwargs={})])
    if variant == 3:
        return MazeDatasetConfig(name=name, grid_n=g, n_mazes=n, maze_ctor=GENERATORS_MAP["gen_dfs"], maze_ctor_kwargs={"do_forks": False, "max_tree_depth": 3, "accessible_cells": 0.5}, seed=123456)
    return MazeDatasetConfig(name=name, grid_n=g, n_mazes=n)


def build(recipe):
    """recipe (JSON-able dict) -> fresh MazeDataset"""
    md, MazeDataset, MazeDatasetConfig, *_rest, GENERATORS_MAP = _lib()
    kind = recipe["kind"]
    if kind == "gen":
        gname, kw = GENS[recipe["gen"]]
        cfg = MazeDatasetConfig(
            name=recipe.get("name", "c05"),
            grid_n=recipe["g"],
            n_mazes=recipe["n"],
            maze_ctor=GENERATORS_MAP[gname],
            maze_ctor_kwargs=dict(kw),
            endpoint_kwargs={k: (list(v) if isinstance(v, list) else v) for k, v in ENDPOINTS[recipe["ep"]].items()},
            seed=recipe["seed"],
            seq_len_min=recipe.get("smin", 1),
            seq_len_max=recipe.get("smax", 512),
        )
        ds = MazeDataset.generate(cfg, gen_parallel=False)
        if recipe.get("rewrap"):
            # keep the config object as constructed here (generate() works on a load(serialize()) copy)
            ds = MazeDataset(cfg, ds.mazes)
    elif kind == "hand":
        rng = np.random.default_rng(recipe["rs"])
        g = recipe["g"]
        mazes = _hand_mazes(rng, g, recipe["lens"], recipe["conn"], recipe["mode"] != "none")
        ds = MazeDataset(_hand_cfg(recipe.get("name", "hand"), g, len(mazes), recipe.get("cfgv", 0)), mazes)
    elif kind == "exh":
        g = recipe["g"]
        conn, order = _serpentine(g)
        rng = np.random.default_rng([7, g])
        mazes = []
        for i, L in enumerate(recipe["lens"]):
            # rotate / reverse the path per index so that order mix-ups between mazes are visible
            o = order[::-1] if i % 2 else order
            off = i % (len(o) - L + 1)
            cn = conn.copy()
            cn[0, 0, 0] = bool(i % 2)  # an extra (cycle) edge on odd indices: connection lists differ between neighbours
            mazes.append(mz.SolvedMaze(connection_list=cn, solution=np.array(o[off : off + L]), generation_meta=_synthetic_meta(rng, g, i) if recipe["mode"] != "none" else None))
        ds = MazeDataset(_hand_cfg("exh", g, len(mazes), recipe.get("cfgv", 0)), mazes)
    else:
        raise ValueError(kind)
    ds = _apply_mode(ds, recipe["mode"])
    if recipe.get("stale"):
        ds = _stale(ds, recipe["stale"])
    return ds


# ------------------------------------------------------------------ one observed round trip
def _thr_fields(thr):
    return dict(thr_none=thr is None, thr=0 if thr is None else int(thr))


def _zanj_format(path):
    with zipfile.ZipFile(path) as z:
        j = json.loads(z.read("__zanj__.json"))
    return j


def observe_member(ds):
    """pre-call snapshot of one dataset"""
    return dict(
        n=len(ds.mazes),
        G=int(ds.cfg.grid_n),
        o=proj_mazes(ds.mazes),
        pre_cfg=proj_cfg(ds.cfg),
        pre_coll=proj_coll(ds.generation_metadata_collected),
        permeta=[proj_meta(m.generation_meta) for m in ds.mazes],
        has_meta=bool(len(ds.mazes) > 0 and ds.mazes[0].generation_meta is not None),
        stale=bool(int(ds.cfg.n_mazes) != len(ds.mazes)),
    )


def loaded_member(rec, ds, ld):
    rec["post_coll"] = proj_coll(ds.generation_metadata_collected)
    rec["ld"] = proj_mazes(ld.mazes)
    rec["ld_cfg"] = proj_cfg(ld.cfg)
    rec["ld_coll"] = proj_coll(ld.generation_metadata_collected)
    rec["lib_cfg_eq"] = bool(ld.cfg == ds.cfg) and ld.cfg.diff(ds.cfg) == {}


def blank_loaded(rec):
    rec.setdefault("post_coll", dict(present=False, m=[]))
    rec.setdefault("ld", dict(EMPTY_MAZES))
    rec.setdefault("ld_cfg", dict(EMPTY_CFG))
    rec.setdefault("ld_coll", dict(present=False, m=[]))
    rec.setdefault("lib_cfg_eq", False)
    rec.setdefault("fmt", "")
    rec.setdefault("enc", dict(has=False, lens=[], pad=[], cat=[], conn=[], ends=[]))


def round_trip(recipe, path, via, thr, tmpdir):
    """one observed history; None when the INPUT could not be constructed (not a round-trip outcome)"""
    md, MazeDataset, *_ = _lib()
    from zanj import ZANJ

    try:
        ds = build(recipe)
        pre = observe_member(ds)
    except Exception:  # noqa: BLE001 - input construction, see run_job
        return None
    rec = dict(kind="ds", path=path, via=via, recipe=recipe, mode=recipe["mode"], **_thr_fields(thr), **pre)
    stage, res, msg = "serialize", "ok", ""
    md.set_serialize_minimal_threshold(thr)
    try:
        if via == "mem":
            ser = getattr(ds, METHOD[path])()
            rec["fmt"] = str(ser["__format__"])
            rec["enc"] = proj_enc(ser)
            stage = "load"
            ld = MazeDataset.load(ser)
        else:
            p = os.path.join(tmpdir, f"d_{os.getpid()}.zanj")
            stage = "save"
            if path == "serialize":
                ds.save(p)
            else:
                ZANJ().save(getattr(ds, METHOD[path])(), p)
            rec["fmt"] = str(_zanj_format(p)["__format__"])
            stage = "read"
            ld = MazeDataset.read(p)
            os.remove(p)
        stage = "inspect"
        if not isinstance(ld, MazeDataset):
            raise TypeError(f"loaded a {type(ld).__name__}")
        loaded_member(rec, ds, ld)
        stage = ""
    except Exception as e:  # noqa: BLE001 - any exception of the code under test is an outcome to be judged
        res, msg = "raise:" + type(e).__name__, str(e)[:160]
    finally:
        md.set_serialize_minimal_threshold(100)
    blank_loaded(rec)
    rec.update(res=res, stage=stage, msg=msg)
    return rec


def coll_round_trip(recipes, via, thr, tmpdir, recipe_id):
    md, MazeDataset, MazeDatasetConfig, MazeDatasetCollection, MazeDatasetCollectionConfig, _G = _lib()
    try:
        members = []
        for k, rc in enumerate(recipes):
            # member names are distinct unless the recipe asks for members that SHARE a name (a collection pairs members
            # with their configs by position, so equal names are legitimate)
            mname = "m" if recipe_id.get("dup_names") else f"m{k}"
            if rc["kind"] == "empty":
                members.append(MazeDataset(MazeDatasetConfig(name=mname, grid_n=rc["g"], n_mazes=0), []))
            else:
                members.append(build(dict(rc, name=mname)))
        mrecs = [dict(mode=rc.get("mode", "none"), **_thr_fields(thr), **observe_member(d)) for rc, d in zip(recipes, members)]
    except Exception:  # noqa: BLE001 - input construction
        return None
    # "shared": the collection config holds the members' own config objects; "copied": equal but distinct
    # config objects (what MazeDatasetCollection.generate produces: every member is generated from a copy)
    style = recipe_id.get("cfg_style", "shared")
    # collection-level collected metadata (constructor argument), present for every other collection
    cmeta = {"func_name": {"gen_dfs": 3, "hand_built": 1}, "start_coord": {(0, 1): 2, (10, 3): 1}, "n_accessible_cells": {9: 4}, "fully_connected": {True: 4}} if recipe_id.get("k", 0) % 2 else None
    cseed = recipe_id.get("cseed", 42)
    rec = dict(kind="coll", path="serialize", via=via, recipe=recipe_id, **_thr_fields(thr), nm=len(members), members=mrecs,
               pre_ccfg=dict(name="coll", seed=cseed, smin=1, smax=512, filters=[]), c_pre_coll=proj_coll(cmeta))
    # a config copy that is no longer equal to its original makes the collection constructor raise: that is
    # a failed config round trip, recorded (stage "build") and judged like any other exception
    stage, res, msg = "build", "ok", ""
    md.set_serialize_minimal_threshold(thr)
    try:
        mcfgs = [d.cfg if style == "shared" else MazeDatasetConfig.load(d.cfg.serialize()) for d in members]
        ccfg = MazeDatasetCollectionConfig(name="coll", maze_dataset_configs=mcfgs, seed=cseed)
        coll = MazeDatasetCollection(ccfg, members, generation_metadata_collected=cmeta)
        rec["pre_ccfg"] = dict(name=str(ccfg.name), seed=int(ccfg.seed), smin=int(ccfg.seq_len_min), smax=int(ccfg.seq_len_max), filters=[])
        stage = "serialize"
        if via == "mem":
            ser = coll.serialize()
            fmts = [str(s["__format__"]) for s in ser["maze_datasets"]]
            encs = [proj_enc(s) for s in ser["maze_datasets"]]
            stage = "load"
            ld = MazeDatasetCollection.load(ser)
        else:
            p = os.path.join(tmpdir, f"c_{os.getpid()}.zanj")
            stage = "save"
            coll.save(p)
            fmts = [str(s["__format__"]) for s in _zanj_format(p)["maze_datasets"]]
            encs = [proj_enc({}) for _ in fmts]
            stage = "read"
            ld = MazeDatasetCollection.read(p)
            os.remove(p)
        for m, f, e in zip(mrecs, fmts, encs):
            m["fmt"], m["enc"] = f, e
        stage = "inspect"
        if not isinstance(ld, MazeDatasetCollection):
            raise TypeError(f"loaded a {type(ld).__name__}")
        rec["ld_nm"] = len(ld.maze_datasets)
        for m, d, l in zip(mrecs, members, ld.maze_datasets):
            loaded_member(m, d, l)
        rec["ld_ccfg"] = dict(name=str(ld.cfg.name), seed=int(ld.cfg.seed), smin=int(ld.cfg.seq_len_min), smax=int(ld.cfg.seq_len_max), filters=[])
        rec["ld_mcfgs"] = [proj_cfg(c) for c in ld.cfg.maze_dataset_configs]
        rec["c_ld_coll"] = proj_coll(ld.generation_metadata_collected)
        stage = ""
    except Exception as e:  # noqa: BLE001
        res, msg = "raise:" + type(e).__name__, str(e)[:160]
    finally:
        md.set_serialize_minimal_threshold(100)
    for m in mrecs:
        blank_loaded(m)
    rec.setdefault("ld_nm", 0)
    rec.setdefault("ld_ccfg", dict(name="", seed=0, smin=0, smax=0, filters=[]))
    rec.setdefault("ld_mcfgs", [])
    rec.setdefault("c_ld_coll", dict(present=False, m=[]))
    # flat descriptive fields (known-finding matching / evidence); not used for the verdict
    rec["fmts"] = sorted({m["fmt"] for m in mrecs})
    rec["cfg_style"] = style
    want_min = [thr is not None and m["n"] >= thr for m in mrecs]
    rec["members_uncollected_minimal"] = any(w and m["has_meta"] and not m["pre_coll"]["present"] for w, m in zip(want_min, mrecs))
    rec["members_without_metadata_minimal"] = any(w and not m["has_meta"] and not m["pre_coll"]["present"] for w, m in zip(want_min, mrecs))
    rec.update(res=res, stage=stage, msg=msg)
    return rec


def thresholds_for(n):
    out = []
    for t in (None, 0, 1, n, n + 1, 100):
        if t not in out:
            out.append(t)
    return out


def run_job(job):
    """job = dict(recipe=..., trips=[(path, via, thr), ...]) or dict(coll=[recipes], trips=[(via, thr)], rid=...)"""
    tmpdir = tempfile.mkdtemp(prefix="c05_")
    try:
        if "coll" in job:
            out = [coll_round_trip(job["coll"], via, thr, tmpdir, dict(job["rid"], coll=job["coll"])) for via, thr in job["trips"]]
            return [x for x in out if x is not None]
        recipe = job["recipe"]
        # input construction (not under test): a generator configuration may admit no valid endpoints
        # (e.g. forced dead ends in a hallway, a one-cell percolation component) -> relax, else skip
        for attempt in range(3):
            try:
                build(recipe)
                break
            except Exception:  # noqa: BLE001
                if recipe["kind"] != "gen" or attempt == 2:
                    return []
                recipe = dict(recipe, ep="free", seed=recipe["seed"] + attempt)
        out = [round_trip(recipe, path, via, thr, tmpdir) for path, via, thr in job["trips"]]
        return [x for x in out if x is not None]
    finally:
        shutil.rmtree(tmpdir, ignore_errors=True)


def all_trips(n, vias=("mem",)):
    t = []
    for via in vias:
        t += [(p, via, 100) for p in ("full", "minimal", "cat")]
        t += [("serialize", via, thr) for thr in thresholds_for(n)]
    return t


# ------------------------------------------------------------------ case enumeration
def exhaustive_jobs(g, max_n, max_len, modes, vias=("mem",)):
    import itertools

    jobs = []
    for n in range(1, max_n + 1):
        for k, lens in enumerate(itertools.product(range(1, max_len + 1), repeat=n)):
            for mode in modes if isinstance(modes, list) else [modes[(k + n) % len(modes)]]:
                jobs.append(dict(recipe=dict(kind="exh", g=g, lens=list(lens), mode=mode, cfgv=k % 4), trips=all_trips(n, vias)))
    return jobs


def random_jobs(seed, count, disk_every):
    jobs = []
    for k in range(count):
        rng = np.random.default_rng([seed, 5, k])
        g = int(rng.integers(2, 8))
        n = int(rng.integers(1, 13))
        if k % 25 == 7:
            g, n = 11, min(n, 4)  # multi-digit coordinates (solutions, visited cells, metadata key texts)
        vias = ("mem", "disk") if k % disk_every == 0 else ("mem",)
        if k % 3 != 2:
            gi = k % len(GENS)
            ep = ["free", "len1", "short", "free", "deadend"][(k // len(GENS)) % 5]
            if GENS[gi][0] == "gen_percolation" or "accessible_cells" in GENS[gi][1]:
                ep = "free"  # forced endpoints may lie outside the connected component
            if g == 2 and ep == "deadend":
                ep = "free"
            mode = str(rng.choice(["permaze", "collected", "filtered", "none", "stripped", "filtered_twice", "collected_twice"], p=[0.28, 0.28, 0.12, 0.08, 0.08, 0.1, 0.06]))
            rc = dict(kind="gen", gen=gi, g=g, n=n, ep=ep, seed=int(rng.choice([42, 42, 7, 123456])), mode=mode,
                      name=str(rng.choice(["c05", "a b-c_d.1", "Ünï"])), smin=int(rng.choice([1, 3])), smax=int(rng.choice([512, 64])), rewrap=bool(k % 2))
            if k % 4 == 1:
                rc["stale"] = int(rng.choice([-1, 1, 2, 5]))
        else:
            lens = [int(x) for x in rng.choice([1, 1, 2, 2, 3, 5, 9, 20], size=n)]
            rc = dict(kind="hand", g=g, lens=lens, conn=str(rng.choice(["dfs", "perc"])), rs=[seed, 6, k], mode=str(rng.choice(["permaze", "collected", "none"], p=[0.45, 0.4, 0.15])), cfgv=int(rng.integers(0, 4)))
            if k % 2 == 1:
                rc["stale"] = int(rng.choice([-1, 1, 2, 5]))
        jobs.append(dict(recipe=rc, trips=all_trips(n, vias)))
    return jobs


def default_threshold_jobs():
    """the library default (threshold 100): 99 / 100 / 101 mazes through serialize() and save()/read()"""
    jobs = []
    for n in (99, 100, 101, 129, 257):
        for mode in ("permaze", "collected") if n < 129 else ("permaze",):
            rc = dict(kind="gen", gen=0, g=3, n=n, ep="short" if n == 100 else "free", seed=42, mode=mode, rewrap=True)
            jobs.append(dict(recipe=rc, trips=[("serialize", "mem", 100), ("serialize", "disk", 100), ("serialize", "mem", None), ("serialize", "mem", n + 1)]))
    return jobs


def collection_jobs(seed, count, disk_every):
    jobs = []
    for k in range(count):
        rng = np.random.default_rng([seed, 8, k])
        nm = int(rng.integers(1, 5))
        members = []
        for j in range(nm):
            n = int(rng.integers(0, 6))
            g = int(rng.integers(2, 6))
            if n == 0:
                members.append(dict(kind="empty", g=g))
            elif (k + j) % 2:
                members.append(dict(kind="gen", gen=int(rng.integers(0, 6)), g=g, n=n, ep="free", seed=42, mode=str(rng.choice(["permaze", "collected", "none"], p=[0.45, 0.45, 0.1]))))
            else:
                members.append(dict(kind="hand", g=g, lens=[int(x) for x in rng.choice([1, 2, 3, 6], size=n)], conn="dfs", rs=[seed, 9, k, j], mode=str(rng.choice(["permaze", "collected", "none"], p=[0.45, 0.45, 0.1])), cfgv=int(rng.integers(0, 4))))
        sizes = sorted({len(m.get("lens", [])) if m["kind"] == "hand" else m.get("n", 0) for m in members})
        thrs = [None, 100] + [s for s in sizes if s > 0] + [s + 1 for s in sizes]
        if 0 not in sizes:
            thrs.append(0)
        thrs = [t for i, t in enumerate(thrs) if t not in thrs[:i]]
        vias = ("mem", "disk") if k % disk_every == 0 else ("mem",)
        rid = dict(kind="coll", k=k, cfg_style="copied" if k % 3 == 1 else "shared")
        if k % 5 == 2 and nm >= 2:
            # members sharing one name; every other such collection also shares the grid size (configs then differ in n_mazes only)
            rid["dup_names"] = True
            if k % 2 == 0:
                for m in members:
                    m["g"] = members[0]["g"]
        jobs.append(dict(coll=members, rid=rid, trips=[(via, t) for via in vias for t in thrs]))
    return jobs


def long_solution_jobs():
    """solutions of 127 .. 256 cells (serpentine mazes on 12x12 and 16x16): lengths and coordinates beyond the small-int ranges"""
    jobs = []
    for g, lens, mode in ((12, [127, 128, 129, 144], "permaze"), (12, [144, 2, 130], "collected"), (16, [255, 256, 129, 1], "permaze"), (16, [200, 131], "none")):
        jobs.append(dict(recipe=dict(kind="exh", g=g, lens=lens, mode=mode, cfgv=0), trips=all_trips(len(lens), ("mem", "disk"))))
    return jobs


# ------------------------------------------------------------------ evidence helpers
def slim(x):
    """the case stored with a violation / sample: recipe + flat descriptive fields (no bulky arrays)"""
    d = {k: x[k] for k in ("kind", "path", "via", "thr_none", "thr", "res", "stage", "msg", "recipe") if k in x}
    if x["kind"] == "ds":
        thr = None if x["thr_none"] else x["thr"]
        d.update(n=x["n"], G=x["G"], mode=x["mode"], fmt=x["fmt"], lens=[len(s) for s in x["o"]["sol"]], has_meta=x["has_meta"], collected=x["pre_coll"]["present"],
                 minimal_requested=x["path"] in ("minimal", "cat") or (x["path"] == "serialize" and thr is not None and x["n"] >= thr))
    else:
        d.update(nm=x["nm"], sizes=[m["n"] for m in x["members"]], fmts=x["fmts"], cfg_style=x["cfg_style"],
                 members_uncollected_minimal=x["members_uncollected_minimal"], members_without_metadata_minimal=x["members_without_metadata_minimal"])
    return d


def _nontrivial(x):
    """a round trip that exercises ragged lengths / boundary lengths / non-full formats"""
    if x["kind"] == "coll":
        return x["nm"] > 1
    lens = [len(s) for s in x["o"]["sol"]]
    return x["fmt"] != "MazeDataset" or len(set(lens)) > 1 or min(lens, default=9) <= 2


def _mutate(rec, fn):
    c = json.loads(json.dumps(rec))
    fn(c)
    return c


def _accepted_copy(rec):
    """copy of a real record rewritten into a history the oracle accepts by construction (loaded := original,
    loaded config := the expected config, ...): every canary corrupts exactly one thing of such a copy, so the
    canaries do not depend on the code under test having behaved correctly in this run"""
    c = json.loads(json.dumps(rec))
    fmt = {"full": "MazeDataset", "minimal": "MazeDataset:minimal", "cat": "MazeDataset:minimal_soln_cat"}.get(c["path"], "MazeDataset")
    c.update(res="ok", stage="", msg="", fmt=fmt, lib_cfg_eq=True)
    c["ld"] = json.loads(json.dumps(c["o"]))
    c["ld_cfg"] = json.loads(json.dumps(c["pre_cfg"]))
    if fmt != "MazeDataset" and c["has_meta"] and not c["pre_coll"]["present"]:
        c["ld_cfg"]["filters"].append(["collect_generation_meta", "[]", "{}"])
    if c["pre_coll"]["present"]:
        c["ld_coll"] = json.loads(json.dumps(c["pre_coll"]))
    elif c["post_coll"]["present"]:
        c["ld_coll"] = json.loads(json.dumps(c["post_coll"]))
    if c["path"] == "serialize":
        c.update(thr_none=True, thr=0, fmt="MazeDataset")
        if c["has_meta"] and not c["pre_coll"]["present"]:
            c["ld_cfg"]["filters"] = json.loads(json.dumps(c["pre_cfg"]["filters"]))
            c["post_coll"] = dict(present=False, m=[])
    c["enc"] = dict(has=False, lens=[], pad=[], cat=[], conn=[], ends=[])
    return c


def make_canaries(recs):
    """[(corrupted record, clause that must reject it)], names of canaries that could not be built"""
    dsr = [r for r in recs if r["kind"] == "ds"]
    can, missing = [], []

    def add(name, pred, corrupt, clause, base=_accepted_copy):
        for r in dsr:
            if pred(r):
                c = base(r)
                corrupt(c)
                can.append((c, clause))
                return
        missing.append(name)

    two = lambda r: r["n"] >= 2 and len(r["o"]["sol"][0]) >= 2 and r["o"]["sol"][0] != r["o"]["sol"][1]  # noqa: E731
    add("sol_short", two, lambda c: c["ld"]["sol"][0].pop(), "solution_differs")
    add("sol_order", two, lambda c: c["ld"]["sol"].reverse(), "solution_differs")
    add("conn_bit", two, lambda c: c["ld"]["conn"][1][0][0].__setitem__(0, 1 - c["ld"]["conn"][1][0][0][0]), "connections_differ")
    add("start", two, lambda c: c["ld"]["start"].__setitem__(0, [c["ld"]["start"][0][0] + 1, c["ld"]["start"][0][1]]), "start_differs")
    add("end", two, lambda c: c["ld"]["end"].__setitem__(1, [c["ld"]["end"][1][0], c["ld"]["end"][1][1] + 1]), "end_differs")

    def drop_last(c):
        for k in ("conn", "sol", "start", "end"):
            c["ld"][k].pop()
        c["ld"]["n"] -= 1

    add("count", two, drop_last, "maze_count_differs")
    add("cfg_grid", two, lambda c: c["ld_cfg"].__setitem__("grid_n", c["ld_cfg"]["grid_n"] + 1), "config_differs")
    add("cfg_filter_added", two, lambda c: c["ld_cfg"]["filters"].append(["path_length", "[]", "{}"]), "config_differs")
    add("cfg_ekw", two, lambda c: c["ld_cfg"].__setitem__("ekw", c["ld_cfg"]["ekw"] + " "), "config_differs")
    add("cfg_ckw", two, lambda c: c["ld_cfg"].__setitem__("ckw", '{"zzz": 1}'), "config_differs")
    add("cfg_seed", two, lambda c: c["ld_cfg"].__setitem__("seed", c["ld_cfg"]["seed"] + 1), "config_differs")
    add("cfg_lib_eq", two, lambda c: c.__setitem__("lib_cfg_eq", False), "config_unequal_by_library")
    add("raises", two, lambda c: c.update(res="raise:ValueError", stage="load"), "round_trip_raises")
    hasc = lambda r: r["pre_coll"]["present"] and len(r["pre_coll"]["m"]) >= 2 and r["pre_coll"]["m"][0]["vc"]  # noqa: E731
    add("coll_count", hasc, lambda c: c["ld_coll"]["m"][0]["vc"][0].__setitem__("n", c["ld_coll"]["m"][0]["vc"][0]["n"] + 1), "collected_metadata_differs")
    add("coll_key_dropped", hasc, lambda c: c["ld_coll"]["m"].pop(), "collected_metadata_differs")
    add("coll_absent", hasc, lambda c: c["ld_coll"].update(present=False, m=[]), "collected_metadata_differs")
    add("coll_key_renamed", hasc, lambda c: c["ld_coll"]["m"][0].__setitem__("k", "renamed"), "collected_metadata_differs")
    willc = lambda r: r["path"] == "minimal" and r["has_meta"] and not r["pre_coll"]["present"]  # noqa: E731
    add("cfg_collect_entry_missing", willc, lambda c: c["ld_cfg"]["filters"].pop(), "config_differs")
    ser = lambda r: r["path"] == "serialize"  # noqa: E731
    # (threshold, format) pairs that contradict the rule whatever the code did
    add("select_at_n_full", ser, lambda c: c.update(thr_none=False, thr=c["n"], fmt="MazeDataset"), "format_not_selected_by_threshold")
    add("select_above_n_minimal", ser, lambda c: c.update(thr_none=False, thr=c["n"] + 1, fmt="MazeDataset:minimal"), "format_not_selected_by_threshold")
    add("select_none_minimal", ser, lambda c: c.update(thr_none=True, thr=0, fmt="MazeDataset:minimal"), "format_not_selected_by_threshold")
    add("select_cat", ser, lambda c: c.update(thr_none=False, thr=0, fmt="MazeDataset:minimal_soln_cat"), "format_not_selected_by_threshold")

    def enc_of(c, fmt):
        lens = [len(x) for x in c["o"]["sol"]]
        mx = max(lens)
        c["fmt"] = fmt
        c["enc"] = dict(has=True, lens=lens, conn=json.loads(json.dumps(c["o"]["conn"])), pad=[], cat=[], ends=[])
        if fmt == "MazeDataset:minimal":
            c["enc"]["pad"] = [x + [[0, 0]] * (mx - len(x)) for x in json.loads(json.dumps(c["o"]["sol"]))]
        else:
            c["enc"]["cat"] = [p for x in c["o"]["sol"] for p in x]
            c["enc"]["ends"] = [[x[0], x[-1]] for x in c["o"]["sol"]]

    pmin = lambda r: r["path"] == "minimal" and two(r)  # noqa: E731
    pcat = lambda r: r["path"] == "cat" and two(r)  # noqa: E731
    add("enc_lens", pmin, lambda c: (enc_of(c, "MazeDataset:minimal"), c["enc"]["lens"].__setitem__(0, c["enc"]["lens"][0] - 1)), "M:encoding_lengths")
    add("enc_pad", pmin, lambda c: (enc_of(c, "MazeDataset:minimal"), c["enc"]["pad"][0].__setitem__(0, [9, 9])), "M:encoding_padded")
    add("enc_conn", pmin, lambda c: (enc_of(c, "MazeDataset:minimal"), c["enc"]["conn"].reverse(), c["enc"]["conn"][0][0][0].__setitem__(0, 1 - c["enc"]["conn"][0][0][0][0])), "M:encoding_connections")
    add("enc_cat", pcat, lambda c: (enc_of(c, "MazeDataset:minimal_soln_cat"), c["enc"]["cat"].append([0, 0])), "M:encoding_concat")
    add("enc_loader", pcat, lambda c: (enc_of(c, "MazeDataset:minimal_soln_cat"), c["ld"]["sol"][0].pop(), c["ld"]["sol"][1].insert(0, c["o"]["sol"][0][-1])), "M:loader_model")

    colls = [r for r in recs if r["kind"] == "coll" and r["nm"] >= 2 and r["members"][0]["n"] >= 1]
    if colls:
        def coll_copy(r):
            c = json.loads(json.dumps(r))
            c.update(res="ok", stage="", msg="", ld_nm=c["nm"], ld_ccfg=json.loads(json.dumps(c["pre_ccfg"])), thr_none=True, thr=0)
            c["c_pre_coll"] = dict(present=True, m=[dict(k="func_name", vc=[dict(v="gen_dfs", n=3)])])
            c["c_ld_coll"] = json.loads(json.dumps(c["c_pre_coll"]))
            c["members"] = [dict(_accepted_copy(dict(m, path="serialize")), thr_none=True, thr=0) for m in c["members"]]
            c["ld_mcfgs"] = [json.loads(json.dumps(m["pre_cfg"])) for m in c["members"]]
            return c

        for name, corrupt, clause in [
            ("coll_member_count", lambda c: c.__setitem__("ld_nm", c["ld_nm"] - 1), "member_count_differs"),
            ("coll_member_sol", lambda c: c["members"][0]["ld"]["sol"][0].append([0, 0]), "solution_differs"),
            ("coll_cfg_name", lambda c: c["ld_ccfg"].__setitem__("name", "other"), "collection_config_differs"),
            ("coll_member_cfg", lambda c: c["ld_mcfgs"][1].__setitem__("grid_n", 99), "collection_config_differs"),
            ("coll_level_metadata", lambda c: c["c_ld_coll"]["m"][0]["vc"][0].__setitem__("n", 4), "collected_metadata_differs"),
            ("coll_member_fmt", lambda c: c["members"][0].__setitem__("fmt", "MazeDataset:minimal"), "format_not_selected_by_threshold"),
        ]:
            c = coll_copy(colls[0])
            corrupt(c)
            can.append((c, clause))
    else:
        missing.append("collection canaries")
    return can, missing


# ------------------------------------------------------------------ main
def _batches(jobs, size):
    return [jobs[i : i + size] for i in range(0, len(jobs), size)]


def main(chk: lib.Check) -> int:
    thorough = chk.tier == "thorough"
    chk.rule = (
        "cases = (dataset, serialization path, in-memory|disk, threshold) round trips. Exhaustive: every vector of solution lengths "
        "1..4 for 1..4 mazes (hand-built SolvedMaze lists on the 2x2 and 3x3 serpentine mazes, directly constructed configs with non-default "
        "fields) x {_serialize_full, _serialize_minimal, _serialize_minimal_soln_cat, serialize() under thresholds None,0,1,n,n+1,100} x "
        "metadata modes {per-maze, collected, none}; seeded random: all five generators (+kwargs), grid_n 2..7 (and 11), n_mazes 1..12, "
        "endpoint options forcing length-1 / short solutions, hand-built ragged lengths, modes {per-maze, collected, none, strip filter, "
        "path_length filter}, a share through save()/read(); 99/100/101 mazes under the default threshold 100; collections of 1..4 members "
        "of 0..5 mazes (empty members only where the full format is selected; collection config holding the members' own config objects or "
        "equal copies as MazeDatasetCollection.generate does) in memory and on disk. "
        "non-trivial = minimal-family format, or ragged lengths, or a solution of length <= 2, or a collection with > 1 member"
    )
    # ---- (A) design level
    r = lib.tlc_design("Formats", "Formats_small.cfg", expect_actions=["BuildSingle", "BuildColl", "SerializePrivate", "SerializeSelected", "LoadIt"], tag="s")
    chk.add_model("Formats/small", r, "all length vectors 1..4 x 1..4 mazes x 3 formats + 6 thresholds x 3 metadata modes; collections of <= 2 members (0..2 mazes)")
    rb = lib.tlc_expect_violation("Formats", "Formats_broken_pad.cfg", "RoundTrip", tag="bp")
    rc = lib.tlc_expect_violation("Formats", "Formats_broken_cat.cfg", "RoundTrip", tag="bc")
    chk.notes["broken_variants_rejected"] = {"soln[:len-1]": rb.violated, "split at lengths (not running sums)": rc.violated}
    if thorough:
        rh = lib.tlc_design("Formats", "Formats_benign.cfg", tag="h")
        chk.add_model("Formats/benign-variant", rh, "split at ALL running sums (extra empty piece dropped by zip): RoundTrip still holds")

    # ---- (C) real round trips
    # metadata mode "none" (no per-maze and no collected metadata) x minimal family raises on this tree
    # (reported finding): it is swept on a smaller sub-scope so that the report stays readable
    two = ["permaze", "collected"]
    jobs = exhaustive_jobs(2, 4, 4, two if thorough else tuple(two))
    jobs += exhaustive_jobs(2, 3 if thorough else 2, 4, ["none"])
    jobs += exhaustive_jobs(3, 4 if thorough else 3, 4, tuple(two), vias=("mem", "disk") if thorough else ("mem",))
    n_exh = len(jobs)
    jobs += random_jobs(chk.seed, 2400 if thorough else 260, disk_every=2 if thorough else 3)
    jobs += collection_jobs(chk.seed, 900 if thorough else 120, disk_every=2)
    jobs += default_threshold_jobs()
    jobs += long_solution_jobs()
    # deterministic shuffle: balanced pmap chunks and every batch is a mix of all kinds
    order = np.random.default_rng([chk.seed, 99]).permutation(len(jobs))
    jobs = [jobs[i] for i in order]

    by, fmts, stats, samples, missing_all = {}, {}, dict(len1=0, len2=0, raised=0, skipped=0), [], []
    for bi, batch in enumerate(_batches(jobs, 1300)):
        out = lib.pmap(run_job, batch, chunksize=4)
        stats["skipped"] += sum(1 for sub in out if not sub)
        recs = [x for sub in out for x in sub]
        canaries, missing = make_canaries(recs)
        missing_all += missing
        lib.judge_with_canaries(
            chk, "Trace_Formats", recs, canaries, label="roundtrip",
            what="Build -> Serialize(format) -> Load histories of the real code judged against Formats.tla (originals, intermediate arrays, loaded arrays, config fields, metadata maps)",
            case_of=slim, min_per_shard=150,
        )
        for x in recs:
            chk.count([x["recipe"], x["path"], x["via"], x["thr_none"], x["thr"]], _nontrivial(x))
            key = f'{x["kind"]}/{x["path"]}/{x["via"]}'
            by[key] = by.get(key, 0) + 1
            stats["raised"] += x["res"] != "ok"
            if x["kind"] == "ds":
                fmts[x["fmt"] or "(none written)"] = fmts.get(x["fmt"] or "(none written)", 0) + 1
                stats["len1"] += sum(1 for s in x["o"]["sol"] if len(s) == 1)
                stats["len2"] += sum(1 for s in x["o"]["sol"] if len(s) == 2)
        if bi == 0:
            samples = [slim(x) for x in (recs[5], recs[len(recs) // 2], recs[-1])]
        del recs, out
    # a canary that could not be built removes a guard: acceptable only if the run is failing anyway
    if missing_all and not chk.violations and not chk.known_hits:
        raise lib.MachineryError(f"canaries could not be built from this run's records: {sorted(set(missing_all))}")
    chk.notes["canaries_not_built"] = sorted(set(missing_all))
    # one line per class of rejected round trips (lib prints only the first 25 individual cases)
    classes = {}
    for clause, rp in chk.violations:
        c = json.load(open(rp))["case"]
        key = (clause, c["kind"], c.get("res"), c.get("stage") if c.get("stage") in ("build", "load", "read", "inspect") else "serialize/save", c.get("msg", "")[:60],
               f'has_meta={c.get("has_meta")} collected={c.get("collected")} minimal_requested={c.get("minimal_requested")}' if c["kind"] == "ds"
               else f'cfg_style={c.get("cfg_style")} uncollected_minimal={c.get("members_uncollected_minimal")} no_metadata_minimal={c.get("members_without_metadata_minimal")}')
        classes.setdefault(key, []).append(rp)
    for key, rps in sorted(classes.items(), key=lambda kv: -len(kv[1])):
        print(f"  [C05] {len(rps)} x clause={key[0]} {key[1]} {key[2]} at {key[3]} ({key[4]!r}) {key[5]} e.g. {rps[0]}")
    chk.notes["violation_classes"] = [dict(count=len(v), clause=k[0], kind=k[1], res=k[2], stage=k[3], msg=k[4], where=k[5], example=v[0]) for k, v in classes.items()]
    import maze_dataset

    chk.notes["library_under_test"] = os.path.dirname(maze_dataset.__file__)
    chk.notes["round_trips_by_kind"] = by
    chk.notes["formats_written"] = fmts
    chk.notes["solutions_of_length_1"] = stats["len1"]
    chk.notes["solutions_of_length_2"] = stats["len2"]
    chk.notes["round_trips_that_raised"] = stats["raised"]
    chk.notes["jobs_skipped_input_not_constructible"] = stats["skipped"]
    for x in samples:
        chk.sample(x)
    chk.exhaustive = True
    chk.notes["exhaustive_scope"] = (
        f"{n_exh} hand-built datasets: all solution-length vectors 1..4 of 1..4 mazes on the 2x2 serpentine maze (per-maze and collected metadata"
        f"{' both' if thorough else ' alternating'}; no metadata at all for 1..{3 if thorough else 2} mazes), of 1..{4 if thorough else 3} mazes on the 3x3 one; "
        "each through all 3 private formats and serialize() under thresholds None,0,1,n,n+1,100"
    )
    chk.assumptions = [
        "TLC, CommunityModules JSON reader, CPython/numpy; zanj zip container treated as part of the implementation under test",
        "generated datasets beyond the exhaustive scope are sampled (seeded), grid_n <= 11 (int8 coordinate storage not stressed)",
        "threshold -1 (legacy loader, profiling only) excluded",
    ]
    return chk.finish("Formats.tla checked exhaustively incl. rejected wrong loaders; every recorded real round trip (memory and disk, datasets and collections) judged by the TLA+ oracle on raw arrays")


def replay(path: str) -> int:
    d = json.load(open(path))
    case = d["case"]
    tmpdir = tempfile.mkdtemp(prefix="c05r_")
    try:
        thr = None if case["thr_none"] else case["thr"]
        if case["kind"] == "coll":
            rec = coll_round_trip(case["recipe"]["coll"], case["via"], thr, tmpdir, case["recipe"])
        else:
            rec = round_trip(case["recipe"], case["path"], case["via"], thr, tmpdir)
    finally:
        shutil.rmtree(tmpdir, ignore_errors=True)
    if rec is None:
        print("replay: the input of this case can no longer be constructed")
        return 2
    rec["id"] = 0
    out = lib.oracle("Trace_Formats", [rec], tag="rp")
    print("replay:", json.dumps(slim(rec), default=str)[:600], "verdict:", out.verdicts.get(0, []))
    if [c for c in out.verdicts.get(0, []) if not c.startswith("M:")]:
        print(f"VIOLATION property=C05 replay={path}")
        return 1
    return 0
