import sys, time, json
sys.path.insert(0, "/verif")
from harness import lib, mz
from harness.checks import c10
t=time.time()
recs=[]
for job in [(1,1,0,1,1),(1,2,0,2,1),(2,2,0,16,1),(1,3,0,4,1),(2,3,0,128,1)]:
    recs+=c10.observe_graphs(job)
print(len(recs), "records", time.time()-t)
cans, att = c10.make_canaries(recs); print(len(cans), att)
for i,x in enumerate(recs): x["id"]=i
t=time.time()
res=lib.oracle("Trace_Pixels", recs, tag="t1")
print("oracle", time.time()-t, res.states, len(res.verdicts))
from collections import Counter
cnt=Counter((tuple(v), recs[k]["maze"]["kind"], recs[k]["se"], recs[k]["ss"]) for k,v in res.verdicts.items())
for k,v in cnt.items(): print(k,v)
