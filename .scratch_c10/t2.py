import sys, time, json
sys.path.insert(0, "/verif")
from harness import lib, mz
from harness.checks import c10
seed=20260928
a=[x for sub in lib.pmap(c10.observe_random, [(seed,k,12) for k in range(240)], chunksize=4) for x in sub]
b=[x for sub in lib.pmap(c10.observe_random, [(seed,k,12) for k in range(240)], chunksize=4) for x in sub]
print(len(a), len(b), json.dumps(a)==json.dumps(b))
json.dump(a, open("/verif/.scratch_c10/rnd.json","w"))
for att in range(3):
    recs=json.loads(json.dumps(a))
    cans,_=c10.make_canaries(recs)
    chk=lib.Check("C10x","quick",seed)
    try:
        lib.judge_with_canaries(c10._Capped(chk), "Trace_Pixels", recs, cans, label="rnd0")
        print("ok", len(chk.violations), chk.divergences[:3])
    except lib.MachineryError as e:
        s=str(e); print(s[:300]); i=s.find("Error"); print(s[i-200:i+1500])
        break
