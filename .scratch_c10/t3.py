import sys, json
sys.path.insert(0, "/verif")
from harness import lib
from harness.checks import c10
recs=json.load(open("/verif/.scratch_c10/rnd.json"))
cans,_=c10.make_canaries(recs)
for i,x in enumerate(recs): x["id"]=i
allrecs=list(recs)
for k,(c,_cl) in enumerate(cans):
    c=dict(c); c["id"]=lib.CANARY_BASE+k
    allrecs.insert((len(allrecs)*(k+1))//(len(cans)+1), c)
n=len(allrecs); b=[(n*i)//16 for i in range(17)]
with open("/verif/.scratch_c10/sh10.ndjson","w") as f:
    for r in allrecs[b[10]:b[11]]: f.write(json.dumps(r,separators=(",",":"))+"\n")
