#!/bin/bash
cd /verif
run() { n=$1; ( env PYTHONPATH=/tmp/C10_mut/$n bin/check C10 quick > /verif/.scratch_c10/mut_$n.out 2>&1; echo "exit=$?" >> /verif/.scratch_c10/mut_$n.out ); }
ls /tmp/C10_mut | xargs -P 4 -I{} bash -c "$(declare -f run); run {}"
