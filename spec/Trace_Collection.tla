---------------------------- MODULE Trace_Collection ----------------------------
(* Use (C) for C16: every record is the observation of ONE real MazeDatasetCollection built by the
   harness from real MazeDataset members with the length vector r.lens (the input).  Items are
   logged BY OBJECT IDENTITY: for a returned / listed maze object the harness logs `hits` = the list
   of all [member k, position p] with  members[k].mazes[p] is obj  (0-based); a correct item has
   exactly one hit.  The expected <<member, position>> is recomputed HERE from r.lens with
   Collection!Concat; nothing is compared in Python.

   fields:  lens (input), member_lens (len of the members as built), build ("ok" | "raise:<T>"),
            len_res/len, dl_res/dataset_lengths, nm_res/n_mazes (cfg.n_mazes), cum_res/cum,
            mazes_res/mazes (hits per entry of collection.mazes),
            get  = one [res, hits] per valid index i = 0..sum(lens)-1 (collection[i]),
            oob  = [i, res, hits] for i = sum(lens) and i = -1 (recorded; Layer M only)
   Layer P = the statement's clauses.  "M:" = the harness / the code's internals (cum array,
   out-of-range behaviour) differ from the model; never a violation. *)
EXTENDS Collection
Log == ndJsonDeserialize(IOEnv.VERIF_LOG)

If(c, name) == IF c THEN {name} ELSE {}
MinI(a, b) == IF a < b THEN a ELSE b

Expected(ls) == LET c == Concat(ls) IN [k \in 1..Len(c) |-> <<c[k]>>]     \* the hits a correct list shows

GetClauses(r, exp) ==
  LET n == MinI(Len(r.get), Len(exp)) IN
  If(\E k \in 1..n : r.get[k].res # "ok", "getitem_raises_on_valid_index")
  \cup If(\E k \in 1..n : r.get[k].res = "ok" /\ r.get[k].hits # exp[k], "getitem_not_the_concat_item")

OobClauses(r) ==
  If(\E k \in 1..Len(r.oob) :
        LET o == r.oob[k]  m == CodeGetReal(r.lens, o.i) IN
        o.res # m.res \/ (m.res = "ok" /\ o.hits # <<m.item>>), "M:out_of_range_outcome")

Clauses(r) ==
  IF r.build # "ok" THEN {"construction_raises"} ELSE
  LET ls == r.lens  tot == Total(ls)  exp == Expected(ls)
      counts_ok == r.len_res = "ok" /\ r.dl_res = "ok" /\ r.nm_res = "ok" /\ r.mazes_res = "ok" IN
  If(r.len_res # "ok" \/ r.len # CollLen(ls), "len_not_sum_of_members")
  \cup If(r.dl_res # "ok" \/ r.dataset_lengths # DatasetLengths(ls), "member_lengths_wrong")
  \cup If(r.nm_res # "ok" \/ r.n_mazes # NMazes(ls), "n_mazes_wrong")
  \cup If(r.mazes_res # "ok" \/ r.mazes # exp, "mazes_not_the_concatenation")
  \cup GetClauses(r, exp)
  \cup If(counts_ok /\ ~(r.len = Len(r.mazes) /\ r.len = SumSeq(r.dataset_lengths) /\ r.len = r.n_mazes), "views_disagree")
  \cup If(r.member_lens # ls, "M:harness_members")
  \cup If(Len(r.get) # tot, "M:harness_index_range")
  \cup If(r.cum_res # "ok" \/ r.cum # Cum(ls), "M:cum_lengths")
  \cup OobClauses(r)

VARIABLES l, bad
TInit == l = 1 /\ bad = {} /\ lens = <<>> /\ i = 0 /\ cur = <<>>
TNext == /\ l <= Len(Log) /\ l' = l + 1 /\ UNCHANGED vars
         /\ bad' = bad \cup (LET c == Clauses(Log[l]) IN IF c = {} THEN {} ELSE {[id |-> Log[l].id, c |-> c]})
TSpec == TInit /\ [][TNext]_<<l, bad, lens, i, cur>>
Done == (l = Len(Log) + 1) =>
          ndJsonSerialize(IOEnv.VERIF_OUT, <<[id |-> -1, c |-> {ToString(Len(Log))}]>> \o SetToSeq(bad))
=========================================================================
