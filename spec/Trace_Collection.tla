---------------------------- MODULE Trace_Collection ----------------------------
(* Use (C) for C16: every record is the observation of ONE real MazeDatasetCollection built by the
   harness from real MazeDataset members.  Items are logged BY OBJECT IDENTITY: for a returned /
   listed maze object the harness logs `hits` = the list of all [member k, position p] with
   members[k].mazes[p] is obj  (0-based, members = the collection's CURRENT members); a correct item
   has exactly one hit.  The expected <<member, position>> is recomputed HERE from the length vector
   with Collection!Concat; nothing is compared in Python.

   record kinds (field t):
   "static"  lens (input), member_lens (len of the members as built), build ("ok" | "raise:<T>"),
             len_res/len, dl_res/dataset_lengths, nm_res/n_mazes (cfg.n_mazes), cum_res/cum,
             mazes_res/mazes (hits per entry of collection.mazes),
             get = one [res, hits] per valid index i = 0..sum(lens)-1 (collection[i]),
             oob = [i, res, hits] for i = sum(lens) and i = -1 (recorded; Layer M only)
   "hist"    a HISTORY on one collection: steps = sequence of
               [op ("init" | "mutate" | "update"), k, n, kind, lens (the members' lengths after the op, as
                edited by the harness), member_lens, len_res/len, dl_res/dataset_lengths, cum_res/cum, get, oob]
             every step is observed like a static record w.r.t. the CURRENT lengths (`.mazes` is NOT read
             during the history); then  end = [mazes_res, mazes, nm_res, n_mazes]: `.mazes` read for the
             first time after the last step, and cfg.n_mazes after a final update_self_config().
             Each step must be explained by Collection!Mutate(k, n) / Update (Layer M: the log is a
             behaviour of the spec) and satisfy the statement for the current vector (Layer P).
   "fault"   mode "fault": member k raises the harness's InjectedFault on its first read during the first
             `collection.mazes`; mode "threads": a worker thread is held inside its first
             `collection.mazes` while reading member k and the main thread reads `collection.mazes` too.
             reads = sequence of [who, res, mazes (hits per entry)], len_res/len.
             (Collection!BuildFault / Read: a list handed to a reader is never a truncated one.)
   Layer P = the statement's clauses.  "M:" = the harness / the code's internals (cum array,
   out-of-range behaviour, history bookkeeping) differ from the model; never a violation. *)
EXTENDS Collection
Log == ndJsonDeserialize(IOEnv.VERIF_LOG)

If(c, name) == IF c THEN {name} ELSE {}
MinI(a, b) == IF a < b THEN a ELSE b

Expected(ls) == LET c == Concat(ls) IN [k \in 1..Len(c) |-> <<c[k]>>]     \* the hits a correct list shows

GetClauses(r, exp) ==
  LET n == MinI(Len(r.get), Len(exp)) IN
  If(\E k \in 1..n : r.get[k].res # "ok", "getitem_raises_on_valid_index")
  \cup If(\E k \in 1..n : r.get[k].res = "ok" /\ r.get[k].hits # exp[k], "getitem_not_the_concat_item")

OobClauses(r, ls) ==
  If(\E k \in 1..Len(r.oob) :
        LET o == r.oob[k]  m == CodeGetReal(ls, o.i) IN
        o.res # m.res \/ (m.res = "ok" /\ o.hits # <<m.item>>), "M:out_of_range_outcome")

\* what every observation of a collection whose members currently have lengths ls must satisfy
ObsClauses(r, ls) ==
  LET exp == Expected(ls) IN
  If(r.len_res # "ok" \/ r.len # CollLen(ls), "len_not_sum_of_members")
  \cup If(r.dl_res # "ok" \/ r.dataset_lengths # DatasetLengths(ls), "member_lengths_wrong")
  \cup GetClauses(r, exp)
  \cup If(r.member_lens # ls, "M:harness_members")
  \cup If(Len(r.get) # Total(ls), "M:harness_index_range")
  \cup If(r.cum_res # "ok" \/ r.cum # Cum(ls), "M:cum_lengths")
  \cup OobClauses(r, ls)

StaticClauses(r) ==
  IF r.build # "ok" THEN {"construction_raises"} ELSE
  LET ls == r.lens
      counts_ok == r.len_res = "ok" /\ r.dl_res = "ok" /\ r.nm_res = "ok" /\ r.mazes_res = "ok" IN
  ObsClauses(r, ls)
  \cup If(r.nm_res # "ok" \/ r.n_mazes # NMazes(ls), "n_mazes_wrong")
  \cup If(r.mazes_res # "ok" \/ r.mazes # Expected(ls), "mazes_not_the_concatenation")
  \cup If(counts_ok /\ ~(r.len = Len(r.mazes) /\ r.len = SumSeq(r.dataset_lengths) /\ r.len = r.n_mazes), "views_disagree")

\* step j of a history is a step of the spec: Mutate(k, n) changes exactly member k to n # old, others keep lens
StepIsSpecStep(prev, s) ==
  CASE s.op = "mutate" -> /\ s.k + 1 \in 1..Len(prev) /\ s.n # prev[s.k + 1] /\ s.n >= 0
                          /\ s.lens = [prev EXCEPT ![s.k + 1] = s.n]
    [] s.op = "update" -> s.lens = prev
    [] OTHER -> FALSE
HistClauses(r) ==
  IF r.build # "ok" THEN {"construction_raises"} ELSE
  LET st == r.steps  last == st[Len(st)].lens IN
  UNION {(IF st[j].res # "ok" THEN {"history_step_raises"} ELSE IF st[j].obs THEN ObsClauses(st[j], st[j].lens) ELSE {}) : j \in 1..Len(st)}
  \cup If(st[1].op # "init" \/ \E j \in 2..Len(st) : ~StepIsSpecStep(st[j - 1].lens, st[j]), "M:history_not_a_spec_behaviour")
  \cup If(r.end.mazes_res # "ok" \/ r.end.mazes # Expected(last), "mazes_not_the_concatenation")
  \cup If(r.end.judge_n /\ (r.end.nm_res # "ok" \/ r.end.n_mazes # NMazes(last)), "n_mazes_wrong")

FaultClauses(r) ==
  IF r.build # "ok" THEN {"construction_raises"} ELSE
  LET exp == Expected(r.lens)  rd == r.reads
      partial == \E j \in 1..Len(rd) : rd[j].res = "ok" /\ rd[j].mazes # exp IN
  If(partial /\ r.mode = "fault", "mazes_truncated_after_fault")
  \cup If(partial /\ r.mode = "threads", "concurrent_reader_sees_partial_mazes")
  \cup If(\E j \in 1..Len(rd) : rd[j].res = "ok" /\ (r.len_res # "ok" \/ Len(rd[j].mazes) # r.len), "mazes_len_disagrees_with_len")
  \cup If(\E j \in 1..Len(rd) : rd[j].res \notin {"ok", "raise:InjectedFault"}, "mazes_read_raises")
  \cup If(r.len_res # "ok" \/ r.len # CollLen(r.lens), "len_not_sum_of_members")
  \cup If(r.mode = "fault" /\ rd[1].res # "raise:InjectedFault", "M:fault_did_not_fire")
  \cup If(r.mode = "threads" /\ ~r.reached, "M:worker_not_held_in_build")

Clauses(r) ==
  CASE r.t = "static" -> StaticClauses(r)
    [] r.t = "hist" -> HistClauses(r)
    [] r.t = "fault" -> FaultClauses(r)
    [] OTHER -> {"M:unknown_record_kind"}

VARIABLES l, bad
TInit == l = 1 /\ bad = {} /\ lens = <<>> /\ i = 0 /\ cur = <<>> /\ cache = None /\ mzc = None /\ wb = 0 /\ ret = None
TNext == /\ l <= Len(Log) /\ l' = l + 1 /\ UNCHANGED vars
         /\ bad' = bad \cup (LET c == Clauses(Log[l]) IN IF c = {} THEN {} ELSE {[id |-> Log[l].id, c |-> c]})
TSpec == TInit /\ [][TNext]_<<l, bad, lens, i, cur, cache, mzc, wb, ret>>
Done == (l = Len(Log) + 1) =>
          ndJsonSerialize(IOEnv.VERIF_OUT, <<[id |-> -1, c |-> {ToString(Len(Log))}]>> \o SetToSeq(bad))
=========================================================================
