CONSTANTS Cfgs <- CfgsAB
  NMazes = 3  MaxWorkers = 3  MaxCalls = 2  InitSetsGlobal = FALSE  SerialInits = TRUE
SPECIFICATION Spec
INVARIANT ItemFromThisCfg
CHECK_DEADLOCK FALSE
