---------------------------- MODULE Trace_MazeValue ----------------------------
(* Use (C) for C09: every record is an observation of the REAL objects (raw projection of each maze:
   kind, conn, start, end, sol) together with the recorded results of ==, !=, hash, set / dict
   de-duplication, or of a constructor call.  Each record is a one-step history; it is accepted iff
   the recorded results are the ones MazeValue's value semantics allows.

   record kinds (field t):
     "pair"    a, b, eq, ne, eq_r, ne_r ("True" | "False" | "raise:<Type>" | "nonbool:<type>"),
               ha, hb ("ok" | "raise:<Type>"), heq, set_res, set_n, dict_res, dict_n, exp,
               eq2, ne2, eq_r2, ne_r2 (the comparisons repeated afterwards), hstable (hash(a) unchanged);
               in HISTORY records a is an object that has been used (rendered, tokenized, serialized,
               hashed, put into a set ...) and b a fresh object: the value semantics has no history
     "foreign" a, eq, ne, eq_r, ne_r                      (right operand is not a maze)
     "dedup"   ms (list of mazes), hs_ok, set_res, set_n, dict_res, dict_first (0-based kept indices)
     "ctor"    kind, R, C, start, end (requested), res, got_start, got_end; forms "alias_*" pass the caller's own
               mutable objects and OVERWRITE them after the call, before got_* are read: + argmod (an argument
               differed from its snapshot right after the call), hstable (hash before = hash after the
               overwrite), sol_kept (the solution held afterwards is the requested one)
     "ds"      ca, cb (compared cfg fields incl. applied filters), na, nb (n_mazes), ceq (real cfg == cfg),
               ma, mb (the CURRENT maze lists), eq, ne, eq_r, ne_r, eq2, eq_r2
     "build"   kind, conn, start, end, sol, res: a maze of the scope could NOT be constructed (res = the exception)
   Layer P = the property's clauses; "M:" clauses only say that the harness / scope model and the
   real objects disagree about something the property does not state. *)
EXTENDS MazeValue
Log == ndJsonDeserialize(IOEnv.VERIF_LOG)

IsBool(x) == x \in {"True", "False"}
\* optional boolean fields (second audit): absent = the default
Flag(r, f, dflt) == IF f \in DOMAIN r THEN r[f] ELSE dflt
Truth(x) == x = "True"
If(c, name) == IF c THEN {name} ELSE {}

PairClauses(r) ==
  LET e == Eq(r.a, r.b)  hashed == r.ha = "ok" /\ r.hb = "ok" IN
  If(~(IsBool(r.eq) /\ IsBool(r.eq_r)), "eq_raises")
  \cup If(~(IsBool(r.ne) /\ IsBool(r.ne_r)), "ne_raises")
  \cup If(IsBool(r.eq) /\ Truth(r.eq) # e, "eq_truth_table")
  \cup If(IsBool(r.eq_r) /\ Truth(r.eq_r) # e, "eq_truth_table_reflected")
  \cup If(IsBool(r.ne) /\ Truth(r.ne) # Ne(r.a, r.b), "ne_truth_table")
  \cup If(IsBool(r.ne_r) /\ Truth(r.ne_r) # Ne(r.a, r.b), "ne_truth_table_reflected")
  \* history must not matter: the same comparisons repeated after hashing / set / dict use, other order first
  \cup If(~(IsBool(r.eq2) /\ IsBool(r.eq_r2) /\ IsBool(r.ne2) /\ IsBool(r.ne_r2)), "eq_raises_when_repeated")
  \cup If((IsBool(r.eq2) /\ Truth(r.eq2) # e) \/ (IsBool(r.eq_r2) /\ Truth(r.eq_r2) # e), "eq_truth_table_when_repeated")
  \cup If((IsBool(r.ne2) /\ Truth(r.ne2) # ~e) \/ (IsBool(r.ne_r2) /\ Truth(r.ne_r2) # ~e), "ne_truth_table_when_repeated")
  \cup If(r.ha = "ok" /\ ~r.hstable, "hash_changes_over_time")
  \cup If(~hashed, "unhashable")
  \cup If(hashed /\ e /\ ~r.heq, "hash_inconsistent")
  \cup (IF r.set_res # "ok" THEN {"set_raises"} ELSE If(r.set_n # (IF e THEN 1 ELSE 2), "set_dedup"))
  \cup (IF r.dict_res # "ok" THEN {"dict_raises"} ELSE If(r.dict_n # (IF e THEN 1 ELSE 2), "dict_dedup"))
  \cup If(~(EndsInGrid(r.a) /\ EndsInGrid(r.b)), "holds_end_outside_grid")
  \cup If(r.exp # e, "M:scope_label")
  \cup If(Flag(r, "amod", FALSE), "M:operand_changed_by_comparison")

ForeignClauses(r) ==
  If(~(IsBool(r.eq) /\ IsBool(r.eq_r) /\ IsBool(r.ne) /\ IsBool(r.ne_r)), "eq_raises")
  \cup If((IsBool(r.eq) /\ Truth(r.eq)) \/ (IsBool(r.eq_r) /\ Truth(r.eq_r)), "eq_truth_table")
  \cup If((IsBool(r.ne) /\ ~Truth(r.ne)) \/ (IsBool(r.ne_r) /\ ~Truth(r.ne_r)), "ne_truth_table")
  \cup If(Flag(r, "amod", FALSE), "M:operand_changed_by_comparison")

DedupClauses(r) ==
  LET keep == FirstOccurrences(r.ms) IN
  If(~r.hs_ok, "unhashable")
  \cup (IF r.set_res # "ok" THEN {"set_raises"} ELSE If(r.set_n # Cardinality(keep), "set_dedup"))
  \cup (IF r.dict_res # "ok" THEN {"dict_raises"}
        ELSE If(~(Len(r.dict_first) = Cardinality(keep) /\ {x + 1 : x \in SeqToSet(r.dict_first)} = keep), "dict_dedup"))
  \cup If(\E k \in 1..Len(r.ms) : ~EndsInGrid(r.ms[k]), "holds_end_outside_grid")

CtorClauses(r) ==
  LET want == ConstructOutcome(r.R, r.C, r.start, r.end) IN
  IF r.res = "ok" THEN
    If(want # "ok", "accepts_end_outside_grid")
    \cup If(~(InGridCell(r.R, r.C, r.got_start) /\ InGridCell(r.R, r.C, r.got_end)), "holds_end_outside_grid")
    \cup If(~(r.got_start = r.start /\ r.got_end = r.end), "M:ends_not_as_given")
    \* aliasing forms: the caller overwrote ITS OWN argument objects after the call (the maze was never touched):
    \* got_start / got_end above are read after that; the hash taken before and after must be the same
    \cup If(~Flag(r, "hstable", TRUE), "hash_changes_over_time")
    \cup If(~Flag(r, "sol_kept", TRUE), "M:solution_not_as_given")
    \cup If(Flag(r, "argmod", FALSE), "M:constructor_modified_argument")
  ELSE (IF want = "ok" THEN {"rejects_end_inside_grid"} ELSE If(r.res # want, "wrong_exception_type"))
       \cup If(Flag(r, "argmod", FALSE), "M:constructor_modified_argument")

\* configuration equality: the compared fields decide; when ONLY n_mazes differs the property does not
\* say (the code documents n_mazes as not compared) and the configuration's own == is taken
CfgEq(r) == IF r.ca # r.cb THEN FALSE ELSE IF r.na = r.nb THEN TRUE ELSE Truth(r.ceq)
DsClauses(r) ==
  LET e == DsEq(CfgEq(r), r.ma, r.mb) IN
  If(~(IsBool(r.eq) /\ IsBool(r.ne) /\ IsBool(r.eq_r) /\ IsBool(r.ne_r) /\ IsBool(r.eq2) /\ IsBool(r.eq_r2)), "ds_eq_raises")
  \cup If((IsBool(r.eq) /\ Truth(r.eq) # e) \/ (IsBool(r.eq_r) /\ Truth(r.eq_r) # e), "ds_eq_truth_table")
  \cup If((IsBool(r.ne) /\ Truth(r.ne) # ~e) \/ (IsBool(r.ne_r) /\ Truth(r.ne_r) # ~e), "ds_ne_truth_table")
  \cup If((IsBool(r.eq2) /\ Truth(r.eq2) # e) \/ (IsBool(r.eq_r2) /\ Truth(r.eq_r2) # e), "ds_eq_truth_table_when_repeated")
  \cup If(~IsBool(r.ceq) \/ (r.ca # r.cb /\ Truth(r.ceq)) \/ (r.ca = r.cb /\ r.na = r.nb /\ ~Truth(r.ceq)), "M:cfg_eq_model")

\* every maze of the scope is well formed (invariant ScopeWellFormed), so a constructor refusing one
\* makes the kind unusable: "rejected ... iff a coordinate is outside the grid"
BuildClauses(r) == IF WellFormed(r) THEN {"constructor_rejects_valid_maze"} ELSE {"M:scope_not_well_formed"}

Clauses(r) ==
  CASE r.t = "pair" -> PairClauses(r)
    [] r.t = "build" -> BuildClauses(r)
    [] r.t = "foreign" -> ForeignClauses(r)
    [] r.t = "dedup" -> DedupClauses(r)
    [] r.t = "ctor" -> CtorClauses(r)
    [] r.t = "ds" -> DsClauses(r)
    [] OTHER -> {"M:unknown_record_kind"}

VARIABLES l, bad
TInit == l = 1 /\ bad = {} /\ cs = 0
TNext == /\ l <= Len(Log) /\ l' = l + 1 /\ UNCHANGED cs
         /\ bad' = bad \cup (LET c == Clauses(Log[l]) IN IF c = {} THEN {} ELSE {[id |-> Log[l].id, c |-> c]})
TSpec == TInit /\ [][TNext]_<<l, bad, cs>>
Done == (l = Len(Log) + 1) =>
          ndJsonSerialize(IOEnv.VERIF_OUT, <<[id |-> -1, c |-> {ToString(Len(Log))}]>> \o SetToSeq(bad))
=========================================================================
