CONSTANTS Shapes <- ShapesTiny
CONSTANTS Variant = "ric_open_only"
SPECIFICATION Spec
INVARIANT IsolatedCellsWalled
CHECK_DEADLOCK FALSE
