CONSTANTS Shapes <- ShapesTiny
CONSTANTS Variant = "ext_square"
SPECIFICATION Spec
INVARIANT ExtendShape
CHECK_DEADLOCK FALSE
