-------------------------- MODULE Trace_GenWilson --------------------------
(* Use (C), step level (Layer M): loop-head snapshots of real gen_wilson executions matched against
   GenWilson!PickStart / GenWilson!Step.  A snapshot = (phase, visited cells, connection slots, path). *)
EXTENDS GenWilson, Json, IOUtils, SequencesExt
Log == ndJsonDeserialize(IOEnv.VERIF_LOG)
VARIABLES tid, l, bad
tvars == <<wvars, tid, l, bad>>
T == Log[tid]
SnapPath(sn) == [k \in 1..Len(sn.path) |-> Cell(sn.path[k])]
SnapSlots(sn) == {<<x[1], x[2], x[3]>> : x \in SeqToSet(sn.slots)}
SameAsState(sn) == sn.phase = phase /\ CellSet(sn.vis) = visited /\ SnapSlots(sn) = slots /\ SnapPath(sn) = path
PickMatches(c, sn) == /\ phase = "pick" /\ c \in Cells \ visited
                      /\ sn.phase = "walk" /\ SnapPath(sn) = <<c>> /\ CellSet(sn.vis) = visited /\ SnapSlots(sn) = slots
StepMatches(n, sn) == /\ CanStep(n) /\ sn.phase = NextPhase(n) /\ SnapPath(sn) = NextPath(n)
                      /\ CellSet(sn.vis) = NextVisitedW(n) /\ SnapSlots(sn) = NextSlotsW(n)
Load(k) ==
  IF k <= Len(Log) THEN
    LET u == Log[k] IN
    /\ R' = u.R /\ C' = u.C /\ visited' = CellSet(u.snaps[1].vis) /\ slots' = {} /\ path' = <<>>
    /\ phase' = (IF u.R * u.C = 1 THEN "done" ELSE "pick")
  ELSE UNCHANGED wvars
TInit == /\ tid = 1 /\ l = 1 /\ bad = {}
         /\ LET u == Log[1] IN /\ R = u.R /\ C = u.C /\ visited = CellSet(u.snaps[1].vis) /\ slots = {} /\ path = <<>>
                               /\ phase = (IF u.R * u.C = 1 THEN "done" ELSE "pick")
Verdict(cs) == IF cs = {} THEN bad ELSE bad \cup {[id |-> T.id, c |-> cs]}
InitOK == l = 1 => /\ SameAsState(T.snaps[1]) /\ Cardinality(visited) = 1 /\ visited \subseteq StartRange(R, C)
TBadInit == /\ tid <= Len(Log) /\ ~InitOK
            /\ bad' = Verdict({"M:initial_state_differs"}) /\ tid' = tid + 1 /\ l' = 1 /\ Load(tid + 1)
TStep ==
  /\ tid <= Len(Log) /\ l < Len(T.snaps) /\ InitOK
  /\ \/ \E c \in Cells : PickMatches(c, T.snaps[l+1]) /\ PickStart(c)
     \/ phase = "walk" /\ \E n \in Nb4(R, C, path[Len(path)]) : StepMatches(n, T.snaps[l+1]) /\ Step(n)
  /\ l' = l + 1 /\ UNCHANGED <<tid, bad>>
TDiverge ==
  /\ tid <= Len(Log) /\ l < Len(T.snaps) /\ InitOK
  /\ ~ \E c \in Cells : PickMatches(c, T.snaps[l+1])
  /\ ~ (phase = "walk" /\ \E n \in Nb4(R, C, path[Len(path)]) : StepMatches(n, T.snaps[l+1]))
  /\ bad' = Verdict({"M:step_not_explained"}) /\ tid' = tid + 1 /\ l' = 1 /\ Load(tid + 1)
TFinish ==
  /\ tid <= Len(Log) /\ l = Len(T.snaps) /\ InitOK
  /\ bad' = Verdict((IF phase = "done" THEN {} ELSE {"M:returned_before_done"})
                    \cup (IF SetSlots(R, C, T.conn) = slots THEN {} ELSE {"M:returned_array_differs_from_model"}))
  /\ tid' = tid + 1 /\ l' = 1 /\ Load(tid + 1)
TNext == TBadInit \/ TStep \/ TDiverge \/ TFinish
TSpec == TInit /\ [][TNext]_tvars
Done == (tid = Len(Log) + 1) =>
          ndJsonSerialize(IOEnv.VERIF_OUT, <<[id |-> -1, c |-> {ToString(Len(Log))}]>> \o SetToSeq(bad))
============================================================================
