CONSTANTS Shapes <- ShapesC20
CONSTANTS ULs <- ULsSmall
CONSTANTS TransposeCoord = FALSE
CONSTANTS SwapStripIndex = FALSE
CONSTANTS HackInBothBranches = FALSE
CONSTANTS Deep = FALSE
SPECIFICATION TSpec
INVARIANT Done
CHECK_DEADLOCK FALSE
