CONSTANTS Shapes <- Shapes3x4
SPECIFICATION Spec
INVARIANT InGridInv
INVARIANT ForestOnVisited
INVARIANT WalkSimple
INVARIANT DoneSpanning
CHECK_DEADLOCK FALSE
