CONSTANTS Cfgs <- CfgsAB
  NMazes = 3  MaxWorkers = 3  MaxCalls = 2  InitSetsGlobal = TRUE  SerialInits = TRUE
SPECIFICATION Spec
INVARIANT ItemFromThisCfg
INVARIANT LenExact
INVARIANT NoLostTask
CHECK_DEADLOCK FALSE
