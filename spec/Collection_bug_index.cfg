SPECIFICATION Spec
CONSTANTS
  MaxLen = 3
  MaxMembers = 5
  SearchArg = "index"
  Side = "left"
  Subtract = "prev"
INVARIANTS TypeOK CursorIsConcat GetIsConcat EndRaises ViewsAgree ConcatIsBijection SearchSortedIsInsertionPoint
CHECK_DEADLOCK FALSE
