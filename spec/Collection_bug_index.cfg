SPECIFICATION Spec
CONSTANTS
  MaxLen = 3
  MaxMembers = 5
  SearchArg = "index"
  Side = "left"
  Subtract = "prev"
  CacheCum = "none"
  MazesBuild = "atomic"
INVARIANTS TypeOK GetIsConcat
CHECK_DEADLOCK FALSE
