CONSTANTS Bases <- BasesAB  Filters <- FiltersPT  Paths <- PathsXY
  MaxFl = 2  MaxHandles = 6  MaxColls = 3  MaxOps = 6  KeyIncludesFilters = TRUE  Views <- ViewsTP
SPECIFICATION Spec
INVARIANT EmitAtHorizon
CHECK_DEADLOCK FALSE
