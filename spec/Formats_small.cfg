CONSTANTS MaxMazes = 4
          MaxLen = 4
          MaxMembers = 2
          Broken = FALSE
          BrokenLoader = "pad"
SPECIFICATION Spec
INVARIANT RoundTrip
INVARIANT SelectRule
INVARIANT EncodingShape
CHECK_DEADLOCK FALSE
