CONSTANTS Shapes <- ShapesSmall
  AccSet <- AccDefault  DepthSet <- DepthDefault  ForkSet <- ForkDefault  RandSet <- BothBool  PercSet <- PercNone
SPECIFICATION Spec
INVARIANT InGridInv
INVARIANT TreeOnVisited
INVARIANT StackInVisited
INVARIANT SpanningWhenDefault
INVARIANT DoneCount
INVARIANT Corridor
INVARIANT MetaTruth
INVARIANT PercExtremes
INVARIANT MeasureNat
PROPERTY Terminates
CHECK_DEADLOCK FALSE
