---------------------------- MODULE Trace_Filters ----------------------------
(* Use (C) for C08: every recorded application of a real filter is judged on RAW data.
   record: [id, filter, a, b (integer parameters; -1 = None / unused), res,
            inb, ina, out : sequences of raw mazes [conn (flat 0/1 list), sol (flat list r0,c0,r1,c1,...)]
                            (input before the call, input after the call, result),
            keep (custom filter only: the predicate's own verdict per input maze),
            cfgb, cfga (digest of the input's serialized config before / after), nb, na (len of input before / after),
            fin (input provenance before: sequence of <<name, args, kwargs>> as strings), fout (result provenance),
            entry (the <<name, args, kwargs>> the call should have appended), out_n (result cfg.n_mazes),
            same_ds, same_cfg, same_flist (object identity of result vs input: dataset, config, provenance list),
            occ (metadata collection only: sequence of <<key, value>> occurrences in the per-maze metadata before),
            cmap (metadata collection only: sequence of <<key, value, count>> collected afterwards)]
   kind = "fromcfg" records compare from_config(cfg with filters) with applying the same filters by hand. *)
EXTENDS FilterRules, TLC, Json, IOUtils
Log == ndJsonDeserialize(IOEnv.VERIF_LOG)
AbsD(x) == IF x < 0 THEN 0 - x ELSE x
SolLen(m) == Len(m.sol) \div 2
StartOf(m) == <<m.sol[1], m.sol[2]>>
EndOf(m) == <<m.sol[Len(m.sol) - 1], m.sol[Len(m.sol)]>>
Manh(m) == AbsD(m.sol[1] - m.sol[Len(m.sol) - 1]) + AbsD(m.sol[2] - m.sol[Len(m.sol)])
NDiff(x, y) == Cardinality({k \in 1..Len(x) : x[k] # y[k]})
NearDup(x, y, ta, tb) ==
  \/ (ta >= 0 /\ Len(x.conn) = Len(y.conn) /\ NDiff(x.conn, y.conn) <= ta)
  \/ (tb >= 0 /\ Len(x.sol) = Len(y.sol) /\ NDiff(x.sol, y.sol) <= tb)
Expected(r) ==
  LET q == r.inb  n == Len(q) IN
  CASE r.filter = "path_length" -> {SelSeq(q, KeepPathLength(SolLen, q, r.a))}
    [] r.filter = "start_end_distance" -> {SelSeq(q, KeepDistance(Manh, q, r.a))}
    [] r.filter = "truncate_count" -> {SelSeq(q, KeepTruncate(q, r.a))}
    [] r.filter = "remove_duplicates_fast" -> {SelSeq(q, KeepFirstOcc(q))}
    [] r.filter = "remove_duplicates" -> {SelSeq(q, KeepNoLaterNear(NearDup, q, r.a, r.b))}
    [] r.filter = "cut_percentile_shortest" ->
         IF n = 0 THEN {<<>>} ELSE {SelSeq(q, KeepAbove(SolLen, q, c)) : c \in Cutoffs(SolLen, q, r.a)}
    [] r.filter = "custom" -> {SelSeq(q, [i \in 1..n |-> r.keep[i]])}
    [] OTHER -> {q}              \* collect_generation_meta / strip_generation_meta keep every maze
InPlace(r) == r.filter = "collect_generation_meta"
\* exact value counts over all mazes
CountOK(r) ==
  LET O == r.occ  M == r.cmap
      cnt(k, v) == Cardinality({i \in 1..Len(O) : O[i][1] = k /\ O[i][2] = v}) IN
  /\ \A i \in 1..Len(M) : M[i][3] = cnt(M[i][1], M[i][2]) /\ M[i][3] > 0
  /\ \A i \in 1..Len(O) : \E j \in 1..Len(M) : M[j][1] = O[i][1] /\ M[j][2] = O[i][2]
  /\ \A i, j \in 1..Len(M) : i # j => <<M[i][1], M[i][2]>> # <<M[j][1], M[j][2]>>
ApplyClauses(r) ==
  IF r.res # "ok" THEN {"filter_raised"} ELSE
     (IF r.out \in Expected(r) THEN {} ELSE {"result_is_not_the_documented_selection"})
  \cup (IF r.ina = r.inb /\ r.na = r.nb THEN {} ELSE {"input_mazes_changed"})
  \cup (IF InPlace(r) \/ r.cfga = r.cfgb THEN {} ELSE {"input_configuration_changed"})
  \cup (IF r.fout = Append(r.fin, r.entry) THEN {} ELSE {"provenance_not_input_filters_plus_this_filter"})
  \cup (IF r.out_n = Len(r.out) THEN {} ELSE {"maze_count_in_result_config_not_updated"})
  \cup (IF InPlace(r) \/ (~r.same_ds /\ ~r.same_cfg /\ ~r.same_flist) THEN {} ELSE {"result_shares_objects_with_input"})
  \cup (IF r.filter = "collect_generation_meta" /\ ~CountOK(r) THEN {"collected_metadata_counts_wrong"} ELSE {})
FromCfgClauses(r) ==
  IF r.res # "ok" THEN {"from_config_with_filters_raised"} ELSE
     (IF r.out = r.inb THEN {} ELSE {"from_config_differs_from_filters_by_hand"})
  \cup (IF r.fout = r.fin THEN {} ELSE {"from_config_provenance_differs_from_by_hand"})
Clauses(r) == IF r.filter = "fromcfg" THEN FromCfgClauses(r) ELSE ApplyClauses(r)
VARIABLES l, bad
Init == l = 1 /\ bad = {}
Next == /\ l <= Len(Log) /\ l' = l + 1
        /\ bad' = bad \cup (LET cs == Clauses(Log[l]) IN IF cs = {} THEN {} ELSE {[id |-> Log[l].id, c |-> cs]})
Spec == Init /\ [][Next]_<<l, bad>>
Done == (l = Len(Log) + 1) =>
          ndJsonSerialize(IOEnv.VERIF_OUT, <<[id |-> -1, c |-> {ToString(Len(Log))}]>> \o SetToSeq(bad))
==============================================================================
