---------------------------- MODULE Pixels ----------------------------
(* C10 - what the pixel image / ASCII drawing of a maze IS, and how a picture is read back.

   Pure definitions (no CONSTANTS, no VARIABLES) so that other modules can EXTEND this one:
     Px, BasePx, PxImage   the picture as a function of the maze value and the two show-flags
     CharOf, Ascii         the ASCII drawing = the same picture, character for character
     ImgClauses            the clauses of the property STATEMENT, written independently of Px, as
                           predicates on an arbitrary image (returns the names of the violated ones)
     FromPx, FromPxAs      reading a picture back: kind detection, connection extraction at the
                           even/odd positions, marked cells, and the ordering walk (PxWalkCands /
                           PxWalk: next = THE connected neighbour among PATH cells + end not yet used)
   The state-machine view of the walk and the finite-scope theorems
   (ImgClauses(m, PxImage(m)) = {}, every one-pixel corruption is rejected, FromPx(Px(m)) = m,
   the walk never has 0 or >= 2 candidates for a shortest path) are model-checked in PixelsMC.tla.

   A maze value is a record  m = [kind, R, C, conn, start, end, sol]  in the raw layout produced
   by harness/mz.py proj():  kind in {"LatticeMaze","TargetedLatticeMaze","SolvedMaze"}, conn as in
   Lattice.tla, start/end = <<i, j>> (or <<>> when the kind has none), sol = sequence of <<i, j>>
   (<<>> when the kind has none).  Pixel coordinates (y, x) are 0-based; an image is a sequence of
   rows of colour codes, img[y+1][x+1]. *)
EXTENDS Lattice

WALL == 0  OPEN == 1  START == 2  END == 3  PATH == 4
Colours == {WALL, OPEN, START, END, PATH}
CharOf(c) == CASE c = WALL -> "#" [] c = OPEN -> " " [] c = START -> "S" [] c = END -> "E" [] c = PATH -> "X" [] OTHER -> "?"
\* from_ascii: characters outside the table stay black = wall
ColourOf(ch) == CASE ch = "#" -> WALL [] ch = " " -> OPEN [] ch = "S" -> START [] ch = "E" -> END [] ch = "X" -> PATH [] OTHER -> WALL

KLattice == "LatticeMaze"  KTargeted == "TargetedLatticeMaze"  KSolved == "SolvedMaze"
Kinds == {KLattice, KTargeted, KSolved}
HasEnds(m) == m.kind \in {KTargeted, KSolved}
IsSolved(m) == m.kind = KSolved

PxH(m) == 2 * m.R + 1
PxW(m) == 2 * m.C + 1
IsCellPx(y, x) == y % 2 = 1 /\ x % 2 = 1
CellPx(c) == <<2 * c[1] + 1, 2 * c[2] + 1>>          \* the pixel of cell c
MidPx(a, b) == <<a[1] + b[1] + 1, a[2] + b[2] + 1>>   \* the pixel between adjacent cells a, b

\* the bare lattice picture: cells open, the pixel between two adjacent cells open iff connected,
\* everything else (border, posts between four cells) wall
BasePx(m, y, x) ==
  IF IsCellPx(y, x) THEN OPEN
  ELSE IF y % 2 = 0 /\ x % 2 = 1 /\ y > 0 /\ y < 2 * m.R
    THEN (IF Bit(m.conn, 0, (y \div 2) - 1, x \div 2) THEN OPEN ELSE WALL)
  ELSE IF y % 2 = 1 /\ x % 2 = 0 /\ x > 0 /\ x < 2 * m.C
    THEN (IF Bit(m.conn, 1, y \div 2, (x \div 2) - 1) THEN OPEN ELSE WALL)
  ELSE WALL

\* the one flag combination the interface rejects (ValueError): a solution without endpoints
Accepted(se, ss) == ss => se

\* marks.  start = end is drawn as one END pixel (DESIGN 4, interpretation note C10/C17)
StartPx(m, se) == IF HasEnds(m) /\ se /\ Cell(m.start) # Cell(m.end) THEN {CellPx(m.start)} ELSE {}
EndPx(m, se) == IF HasEnds(m) /\ se THEN {CellPx(m.end)} ELSE {}
SolPx(m) == {CellPx(m.sol[k]) : k \in 1..Len(m.sol)} \cup {MidPx(m.sol[k], m.sol[k + 1]) : k \in 1..(Len(m.sol) - 1)}
PathPx(m, se, ss) == IF IsSolved(m) /\ ss THEN SolPx(m) \ (StartPx(m, se) \cup EndPx(m, se)) ELSE {}

PxWith(e, s, p, m, y, x) ==
  IF <<y, x>> \in e THEN END ELSE IF <<y, x>> \in s THEN START ELSE IF <<y, x>> \in p THEN PATH ELSE BasePx(m, y, x)
\* colour of pixel (y, x) of the picture of m under the flags (show_endpoints, show_solution)
Px(m, se, ss, y, x) == PxWith(EndPx(m, se), StartPx(m, se), PathPx(m, se, ss), m, y, x)
PxImage(m, se, ss) ==
  LET e == EndPx(m, se)  s == StartPx(m, se)  p == PathPx(m, se, ss) IN
  [y \in 1..PxH(m) |-> [x \in 1..PxW(m) |-> PxWith(e, s, p, m, y - 1, x - 1)]]
AsciiOfImage(img) == [y \in 1..Len(img) |-> [x \in 1..Len(img[y]) |-> CharOf(img[y][x])]]
Ascii(m, se, ss) == AsciiOfImage(PxImage(m, se, ss))

(* ---------------- the clauses of the statement, on an arbitrary image ---------------- *)
SizeOK(m, img) == Len(img) = PxH(m) /\ \A y \in 1..Len(img) : Len(img[y]) = PxW(m)
PxOfColour(img, c) == {<<y - 1, x - 1>> : <<y, x>> \in {q \in (1..Len(img)) \X (1..Len(img[1])) : img[q[1]][q[2]] = c}}
\* interior pixels between two adjacent cells, with the slot of the lattice edge they stand for
EdgePxs(m) == {<<2 * s[2] + 2, 2 * s[3] + 1, s>> : s \in {t \in InteriorSlots(m.R, m.C) : t[1] = 0}}
         \cup {<<2 * s[2] + 1, 2 * s[3] + 2, s>> : s \in {t \in InteriorSlots(m.R, m.C) : t[1] = 1}}
ImgClauses(m, se, ss, img) ==
  IF ~SizeOK(m, img) THEN {"size"}
  ELSE LET H == PxH(m)  W == PxW(m) IN
    (IF \A y \in 1..H, x \in 1..W : img[y][x] \in Colours THEN {} ELSE {"palette"})
    \cup (IF \A y \in 1..H, x \in 1..W : (y = 1 \/ x = 1 \/ y = H \/ x = W) => img[y][x] = WALL THEN {} ELSE {"border"})
    \cup (IF \A c \in CellsOf(m.R, m.C) : img[2 * c[1] + 2][2 * c[2] + 2] # WALL THEN {} ELSE {"cell_pixels"})
    \cup (IF \A e \in EdgePxs(m) : (img[e[1] + 1][e[2] + 1] # WALL) = Bit(m.conn, e[3][1], e[3][2], e[3][3]) THEN {} ELSE {"edge_pixels"})
    \* start / end drawn on their cells when requested and present - and nowhere else, so that an
    \* unmarked cell or passage is plain OPEN ("an open pixel at every cell")
    \cup (IF PxOfColour(img, START) = StartPx(m, se) /\ PxOfColour(img, END) = EndPx(m, se) THEN {} ELSE {"endpoints"})
    \* the solution on exactly its cells and in-between pixels when requested (end marks on top)
    \cup (IF PxOfColour(img, PATH) = PathPx(m, se, ss) THEN {} ELSE {"solution_pixels"})
    \* not in the statement (posts between four cells are walls): model conformance only
    \cup (IF \A y \in 1..H, x \in 1..W : (y % 2 = 1 /\ x % 2 = 1) => img[y][x] = WALL THEN {} ELSE {"M:post_pixels"})
AsciiClauses(img, txt) ==
  IF Len(txt) = Len(img) /\ \A y \in 1..Len(img) : Len(txt[y]) = Len(img[y]) /\ \A x \in 1..Len(img[y]) : txt[y][x] = CharOf(img[y][x])
  THEN {} ELSE {"ascii"}

(* ---------------- reading a picture back ---------------- *)
PxFail == [kind |-> "Fail"]
IsPxFail(v) == v.kind = "Fail"
HasColour(img, c) == \E y \in 1..Len(img) : \E x \in 1..Len(img[y]) : img[y][x] = c
DetectKind(img) ==
  IF HasColour(img, START) \/ HasColour(img, END) THEN (IF HasColour(img, PATH) THEN KSolved ELSE KTargeted) ELSE KLattice
\* a picture can be read as its detected kind or any more general one
Castable(cls, det) == cls = KLattice \/ cls = det \/ (cls = KTargeted /\ det = KSolved)
ImgR(img) == Len(img) \div 2
ImgC(img) == Len(img[1]) \div 2
\* cell (i,j) 0-based: down-edge pixel (2i+2, 2j+1), right-edge pixel (2i+1, 2j+2); 1-based below
ImgConn(img) ==
  <<[i \in 1..ImgR(img) |-> [j \in 1..ImgC(img) |-> IF img[2 * i + 1][2 * j] # WALL THEN 1 ELSE 0]],
    [i \in 1..ImgR(img) |-> [j \in 1..ImgC(img) |-> IF img[2 * i][2 * j + 1] # WALL THEN 1 ELSE 0]]>>
MarkedCells(img, c) == {q \in CellsOf(ImgR(img), ImgC(img)) : img[2 * q[1] + 2][2 * q[2] + 2] = c}

\* one step of the ordering walk: the connected neighbours of the last cell that are marked
\* (PATH cells or the end) and not used yet; the step is defined iff there is exactly one
PxWalkCands(R, C, conn, marked, sol) ==
  {b \in NbC(R, C, conn, sol[Len(sol)]) : b \in marked /\ \A k \in 1..Len(sol) : sol[k] # b}
RECURSIVE PxWalk(_, _, _, _, _, _)
PxWalk(R, C, conn, marked, en, sol) ==
  IF sol[Len(sol)] = en THEN sol
  ELSE LET cs == PxWalkCands(R, C, conn, marked, sol) IN
       IF Cardinality(cs) # 1 THEN <<>> ELSE PxWalk(R, C, conn, marked, en, Append(sol, CHOOSE b \in cs : TRUE))

FromPxAs(cls, img) ==
  LET R == ImgR(img)  C == ImgC(img)  conn == ImgConn(img) IN
  IF ~Castable(cls, DetectKind(img)) THEN PxFail
  ELSE IF cls = KLattice THEN [kind |-> cls, R |-> R, C |-> C, conn |-> conn, start |-> <<>>, end |-> <<>>, sol |-> <<>>]
  ELSE LET S == MarkedCells(img, START)  E == MarkedCells(img, END) IN
    IF Cardinality(S) # 1 \/ Cardinality(E) # 1 THEN PxFail
    ELSE LET s == CHOOSE q \in S : TRUE  e == CHOOSE q \in E : TRUE IN
      IF cls = KTargeted THEN [kind |-> cls, R |-> R, C |-> C, conn |-> conn, start |-> s, end |-> e, sol |-> <<>>]
      ELSE LET w == PxWalk(R, C, conn, MarkedCells(img, PATH) \cup {e}, e, <<s>>) IN
        IF w = <<>> THEN PxFail
        ELSE [kind |-> cls, R |-> R, C |-> C, conn |-> conn, start |-> s, end |-> e, sol |-> w]
FromPx(img) == FromPxAs(DetectKind(img), img)
FromAsciiAs(cls, txt) == FromPxAs(cls, [y \in 1..Len(txt) |-> [x \in 1..Len(txt[y]) |-> ColourOf(txt[y][x])]])

SameMaze(a, b) ==
  /\ a.kind = b.kind /\ a.R = b.R /\ a.C = b.C
  /\ \A d \in 1..2 : \A i \in 1..a.R : \A j \in 1..a.C : a.conn[d][i][j] = b.conn[d][i][j]
  /\ a.start = b.start /\ a.end = b.end /\ a.sol = b.sol

(* ---------------- scope of the statement ---------------- *)
WellFormedMaze(m) ==
  /\ m.kind \in Kinds /\ m.R >= 1 /\ m.C >= 1
  /\ WellShaped(m.R, m.C, m.conn) /\ InGrid(m.R, m.C, m.conn)
  /\ IF HasEnds(m) THEN Len(m.start) = 2 /\ Len(m.end) = 2 /\ InGridCell(m.R, m.C, m.start) /\ InGridCell(m.R, m.C, m.end)
                   ELSE m.start = <<>> /\ m.end = <<>>
  /\ IF IsSolved(m) THEN Len(m.sol) >= 1 /\ Cell(m.sol[1]) = Cell(m.start) /\ Cell(m.sol[Len(m.sol)]) = Cell(m.end)
                         /\ IsWalk(m.R, m.C, m.conn, m.sol) /\ IsSimple(m.sol)
                    ELSE m.sol = <<>>
\* the picture shows everything the maze value has
Complete(m, se, ss) == (HasEnds(m) => se) /\ (IsSolved(m) => ss)
\* premise of the read-back clause: start and end differ and the solution is a shortest path
Premise(m) ==
  /\ HasEnds(m) => Cell(m.start) # Cell(m.end)
  /\ IsSolved(m) => IsShortestPath(m.R, m.C, m.conn, m.sol, Cell(m.start), Cell(m.end))
=======================================================================
