---------------------------- MODULE SolvedOracle ----------------------------
(* Layer-P clauses of C03 over observations of the real dataset generation.
   item record:    kind = "item", n (configured grid_n), shape, conn (raw), sol, start, end,
                   isdefault, has_aS, aS, has_aE, aE, deS, deE, neq   (the configured endpoint options)
   dataset record: kind = "dataset", n_req, n_got, res ("ok" | "raise:<Type>"), may_raise *)
EXTENDS Lattice, TLC
ItemClauses(r) ==
  IF ~(r.shape = <<2, r.n, r.n>> /\ WellShaped(r.n, r.n, r.conn)) THEN {"maze_not_of_configured_grid_size"} ELSE
  LET R == r.n  C == r.n  cn == r.conn  p == r.sol
      inGrid == Len(p) >= 1 /\ \A k \in 1..Len(p) : InGridCell(R, C, Cell(p[k])) IN
  IF ~inGrid THEN {"solution_empty_or_leaves_grid"} ELSE
  LET s == Cell(p[1])  t == Cell(p[Len(p)]) IN
     (IF Len(r.start) = 2 /\ Cell(r.start) = s THEN {} ELSE {"solution_does_not_start_at_start_pos"})
  \cup (IF Len(r.end) = 2 /\ Cell(r.end) = t THEN {} ELSE {"solution_does_not_end_at_end_pos"})
  \cup (IF IsWalk(R, C, cn, p) THEN {} ELSE {"solution_moves_off_connections"})
  \cup (IF IsSimple(p) THEN {} ELSE {"solution_visits_a_cell_twice"})
  \cup (IF Len(p) - 1 = Dist(R, C, cn, s, t) THEN {} ELSE {"solution_not_a_shortest_route"})
  \cup (IF (r.isdefault \/ r.neq) /\ s = t THEN {"endpoints_equal_although_not_allowed"} ELSE {})
  \cup (IF r.has_aS /\ s \notin CellSet(r.aS) THEN {"start_not_in_allowed_start"} ELSE {})
  \cup (IF r.has_aE /\ t \notin CellSet(r.aE) THEN {"end_not_in_allowed_end"} ELSE {})
  \cup (IF r.deS /\ Degree(R, C, cn, s) # 1 THEN {"start_not_a_dead_end"} ELSE {})
  \cup (IF r.deE /\ Degree(R, C, cn, t) # 1 THEN {"end_not_a_dead_end"} ELSE {})
DatasetClauses(r) ==
  IF r.res = "ok" THEN (IF r.n_got = r.n_req THEN {} ELSE {"dataset_length_not_n_mazes"})
  ELSE IF r.res = "raise:ValueError" /\ r.may_raise THEN {}
  ELSE {"generation_raised_unexpectedly"}
Clauses(r) == IF r.kind = "item" THEN ItemClauses(r) ELSE DatasetClauses(r)
==============================================================================
