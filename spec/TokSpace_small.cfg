CONSTANT AdmitPre = FALSE
SPECIFICATION DSpec
INVARIANT CardInv
INVARIANT NameInjective
INVARIANT WellNested
INVARIANT StepTupleInv
INVARIANT ProductInv
INVARIANT ComposeInv
INVARIANT LegacyInv
CHECK_DEADLOCK FALSE
