CONSTANTS Shapes <- Shapes2x3
  AccSet <- AccDefault  DepthSet <- DepthDefault  ForkSet <- ForkDefault  RandSet <- OnlyFalse  PercSet <- PercOnly
SPECIFICATION Spec
INVARIANT InGridInv
INVARIANT TreeOnVisited
INVARIANT StackInVisited
INVARIANT SpanningWhenDefault
INVARIANT DoneCount
INVARIANT Corridor
INVARIANT MetaTruth
INVARIANT MeasureNat
PROPERTY Terminates
CHECK_DEADLOCK FALSE
INVARIANT PercExtremes
