---------------------------- MODULE Trace_SP ----------------------------
(* Use (C) for C02: every recorded call  find_shortest_path(s, e) -> path | ValueError  of the real
   code is a one-step history; the step is accepted iff the outcome is allowed by the property,
   with the true graph distance computed here (BFS over the raw connection array). *)
EXTENDS Lattice, TLC, Json, IOUtils, SequencesExt
Log == ndJsonDeserialize(IOEnv.VERIF_LOG)

Clauses(r) ==
  LET s == Cell(r.s)  t == Cell(r.e)  d == Dist(r.R, r.C, r.conn, s, t)  p == r.path IN
  IF r.res = "raise:ValueError" THEN (IF d = Infinity THEN {} ELSE {"raises_but_connected"})
  ELSE IF r.res # "ok" THEN {"unexpected_exception"}
  ELSE IF d = Infinity THEN {"returns_path_but_disconnected"}
  ELSE (IF Len(p) >= 1 /\ Cell(p[1]) = s THEN {} ELSE {"starts_elsewhere"})
       \cup (IF Len(p) >= 1 /\ Cell(p[Len(p)]) = t THEN {} ELSE {"ends_elsewhere"})
       \cup (IF IsWalk(r.R, r.C, r.conn, p) THEN {} ELSE {"moves_off_connections"})
       \cup (IF Len(p) = d + 1 THEN {} ELSE {"not_minimum_length"})
       \cup (IF s = t /\ p # <<r.s>> THEN {"self_query_not_one_cell"} ELSE {})

VARIABLES l, bad
Init == l = 1 /\ bad = {}
Next == /\ l <= Len(Log) /\ l' = l + 1
        /\ bad' = bad \cup (LET cs == Clauses(Log[l]) IN IF cs = {} THEN {} ELSE {[id |-> Log[l].id, c |-> cs]})
Spec == Init /\ [][Next]_<<l, bad>>
Done == (l = Len(Log) + 1) =>
          ndJsonSerialize(IOEnv.VERIF_OUT, <<[id |-> -1, c |-> {ToString(Len(Log))}]>> \o SetToSeq(bad))
=========================================================================
