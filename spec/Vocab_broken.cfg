CONSTANTS Bound = 6
          UseShell = FALSE
SPECIFICATION VSpec
INVARIANT PermInv
INVARIANT SortedInv
INVARIANT PrefixInv
CHECK_DEADLOCK FALSE
