------------------------------ MODULE GenDFS ------------------------------
(* LatticeMazeGenerators.gen_dfs (and gen_prim = gen_dfs with randomized_stack, and
   gen_dfs_percolation = gen_dfs ; OR with a percolation coin array), one action per iteration of
   the `while stack and len(visited_cells) < n_accessible_cells` loop.

   The connection structure is the SET OF SLOTS <<d,i,j>> that are True in connection_list[d,i,j]
   (so "the edge is stored at its lesser endpoint" and "no connection leaves the grid" are
   expressible).  Parameters are chosen in Init:
     acc   = n_accessible_cells (after the int/float normalisation done by the code)
     maxd  = max_tree_depth     (idem; the code tests  current_tree_depth <= max_tree_depth / 2)
     forks = do_forks, rnd = randomized_stack, perc \in {"none","zero","mid","one"} (p = 0, 0<p<1, 1)
   Random choices (stack index when rnd, neighbour, coin array) are action parameters: TLC visits
   every outcome. *)
EXTENDS Lattice, TLC
CONSTANTS Shapes, AccSet, DepthSet, ForkSet, RandSet, PercSet
VARIABLES R, C, start, acc, maxd, forks, rnd, perc,      \* call arguments
          visited, slots, stack, depth, phase,           \* locals of the loop
          metaVisited, metaFully                         \* generation_meta of the returned maze
gvars == <<R, C, start, acc, maxd, forks, rnd, perc, visited, slots, stack, depth, phase, metaVisited, metaFully>>
params == <<R, C, start, acc, maxd, forks, rnd, perc>>

\* "unlimited" sentinels used in AccSet / DepthSet stand for the defaults (n_total_cells, 2*n_total_cells)
DefaultAcc == -1
DefaultDepth == -1
\* named constant sets for the cfg files (cfg cannot hold negative numbers / sets of strings with <-)
AccDefault == {DefaultAcc}
AccMatrix == {0, 1, 2, 5, 9, 12, DefaultAcc}
DepthDefault == {DefaultDepth}
DepthMatrix == {0, 2, 4, 6, DefaultDepth}
ForkDefault == {TRUE}
BothBool == BOOLEAN
OnlyFalse == {FALSE}
PercNone == {"none"}
PercAll == {"none", "zero", "mid", "one"}
PercOnly == {"zero", "mid", "one"}

Cells == CellsOf(R, C)

GInit(r, c, s0, a, d, fk, rd, pc) ==
  /\ R = r /\ C = c /\ start = s0
  /\ acc = (IF a = DefaultAcc THEN r * c ELSE a)
  /\ maxd = (IF d = DefaultDepth THEN 2 * r * c ELSE d)
  /\ forks = fk /\ rnd = rd /\ perc = pc
  /\ visited = {s0} /\ slots = {} /\ stack = <<s0>> /\ depth = 1 /\ phase = "loop"
  /\ metaVisited = {} /\ metaFully = FALSE

Init == \E sh \in Shapes : \E s0 \in CellsOf(sh[1], sh[2]) :
          \E a \in AccSet, d \in DepthSet, fk \in ForkSet, rd \in RandSet, pc \in PercSet :
            GInit(sh[1], sh[2], s0, a, d, fk, rd, pc)

LoopGuard == stack # <<>> /\ Cardinality(visited) < acc
Unv(cur) == Nb4(R, C, cur) \ visited
Extends(cur) == Unv(cur) # {} /\ 2 * depth <= maxd
\* successor of one loop iteration popping stack[i] and (when it extends) choosing neighbour n
CanIter(i, n) ==
  /\ phase = "loop" /\ LoopGuard
  /\ i \in 1..Len(stack) /\ (rnd \/ i = Len(stack))          \* stack.pop() | stack.pop(randint(0, len-1))
  /\ IF Extends(stack[i]) THEN n \in Unv(stack[i]) ELSE n = stack[i]
NextStack(i, n) ==
  LET cur == stack[i]  st1 == RemoveIdx(stack, i) IN
  IF Extends(cur) THEN (IF forks /\ Cardinality(Unv(cur)) > 1 THEN Append(st1, cur) ELSE st1) \o <<n>>
  ELSE st1
NextSlots(i, n)   == IF Extends(stack[i]) THEN slots \cup {SlotOf(stack[i], n)} ELSE slots
NextVisited(i, n) == IF Extends(stack[i]) THEN visited \cup {n} ELSE visited
NextDepth(i, n)   == IF Extends(stack[i]) THEN depth + 1 ELSE depth - 1
Iter(i, n) ==
  /\ CanIter(i, n)
  /\ stack' = NextStack(i, n) /\ slots' = NextSlots(i, n) /\ visited' = NextVisited(i, n)
  /\ depth' = NextDepth(i, n)
  /\ UNCHANGED <<params, phase, metaVisited, metaFully>>

\* loop exit: build the LatticeMaze and its generation_meta
Finish ==
  /\ phase = "loop" /\ ~LoopGuard
  /\ metaVisited' = visited /\ metaFully' = (Cardinality(visited) = R * C)
  /\ phase' = (IF perc = "none" THEN "done" ELSE "perc")
  /\ UNCHANGED <<params, visited, slots, stack, depth>>

\* gen_dfs_percolation: OR with (rand < p) after _fill_edges_with_walls, then recompute visited_cells
Percolate(coin) ==
  /\ phase = "perc"
  /\ coin \subseteq Slots(R, C)
  /\ (perc = "zero" => coin = {}) /\ (perc = "one" => coin = Slots(R, C))
  /\ slots' = slots \cup (coin \cap InteriorSlots(R, C))
  /\ metaVisited' = ReachS(R, C, slots', start)
  /\ phase' = "done"
  /\ UNCHANGED <<params, visited, stack, depth, metaFully>>

IterAny == phase = "loop" /\ \E i \in 1..Len(stack) : \E n \in Nb4(R, C, stack[i]) \cup {stack[i]} : Iter(i, n)
\* (guards first: TLC would otherwise enumerate the 2^(2RC) coin arrays in every state)
PercAny == /\ phase = "perc"
           /\ \E coin \in (IF perc = "zero" THEN {{}} ELSE IF perc = "one" THEN {Slots(R, C)} ELSE SUBSET Slots(R, C)) : Percolate(coin)
Next == IterAny \/ Finish \/ PercAny
Spec == Init /\ [][Next]_gvars

\* ---------------------------------------------------------------- invariants (C01, C12)
InGridInv == InGridS(R, C, slots)
\* during the loop (and at the end of plain dfs) the connections are a tree on exactly the visited cells
TreeOnVisited == phase \in {"loop", "perc"} \/ perc = "none" => IsTreeOnS(R, C, slots, visited, start)
StackInVisited == \A k \in 1..Len(stack) : stack[k] \in visited
DefaultArgs == acc = R * C /\ maxd = 2 * R * C /\ forks
\* C01: with default arguments the result is a spanning tree of the whole grid
SpanningWhenDefault == (phase = "done" /\ perc = "none" /\ DefaultArgs) => IsSpanningTreeS(R, C, slots)
\* C12: constrained dfs
NoLimits == maxd >= 2 * R * C /\ forks
DoneCount == (phase = "done" /\ perc = "none") =>
   /\ Cardinality(visited) <= MaxI(acc, 1)
   /\ (NoLimits => Cardinality(visited) = MaxI(MinI(acc, R * C), 1))
Corridor == (phase = "done" /\ perc = "none" /\ ~forks) =>
   /\ \A v \in visited : DegS(R, C, slots, v) <= 2
   /\ DegS(R, C, slots, start) <= 1
\* C12: metadata tells the truth
MetaTruth == phase = "done" =>
   /\ metaVisited = ReachS(R, C, slots, start)
   /\ (metaFully => ReachS(R, C, slots, <<0, 0>>) = Cells)
   /\ (perc = "none" => (metaFully <=> ReachS(R, C, slots, <<0, 0>>) = Cells))
\* percolation p = 1 on top of dfs yields every lattice edge; p = 0 leaves the tree alone
PercExtremes == (phase = "done" /\ perc = "one" => slots = InteriorSlots(R, C))
             /\ (phase = "done" /\ perc = "zero" => Cardinality(slots) = Cardinality(visited) - 1)
DepthNonNeg == depth >= 0

\* ---------------------------------------------------------------- termination
\* an extending iteration visits a new cell and lengthens the stack by at most one, every other iteration shortens the stack:
\* 2 * (unvisited cells) + Len(stack) strictly decreases, so the loop body runs at most 3 * R * C times whatever the random choices.
Measure == CASE phase = "loop" -> 2 + 2 * (R * C - Cardinality(visited)) + Len(stack)
             [] phase = "perc" -> 1
             [] OTHER -> 0
MeasureNat == Measure >= 0 /\ Measure <= 3 * R * C + 2
Terminates == [][Measure' < Measure]_gvars
FairSpec == Spec /\ WF_gvars(Next)
Returns == <>(phase = "done")
===========================================================================
