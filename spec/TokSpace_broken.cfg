CONSTANT AdmitPre = TRUE
SPECIFICATION DSpec
INVARIANT CardInv
CHECK_DEADLOCK FALSE
