CONSTANTS Full = FALSE
          Variant = "no_tuples"
SPECIFICATION DSpec
INVARIANT RoundTripInv
CHECK_DEADLOCK FALSE
