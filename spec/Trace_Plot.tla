---------------------------- MODULE Trace_Plot ----------------------------
(* Use (C) for C20.  One record = one real  MazePlot(maze, unit_length)[.add_node_values][.add_true_path]
   [.add_predicted_path / .add_multiple_paths][.mark_coords].plot()  on matplotlib's Agg backend, observed
   through the artists of the axes, plus MazePlot.to_ascii under three flag pairs:
     maze    raw projection (harness/mz.py proj)            ul      unit_length
     hasnv   cell values supplied?   nv  rows of value codes (100 * value, exact) or []
     tpset   add_true_path called?   tp  the (last) path given to it      preds  the predicted paths, in order
     marks   cells given to mark_coords                      res     "ok" | "raise:<Type>" of construct..plot
     enc     "raw" | "rle" | "both": how ax.images[0].get_array() is logged (value codes; NaN / masked = NaNV)
             img = rows; pats / vruns = lossless 2-D run-length encoding (Plot.tla)
     ext     2 * get_extent() = [left, right, bottom, top]   origin  "upper" | "lower"
     lines   ax.lines in order: [ls |-> linestyle, mk |-> marker, pts |-> 2 * xydata]
     quiv    the Quiver collections in order: [X, Y, U, V] (2 * data units)
     asc     [se, ss, res, rows, own_res, own]: to_ascii(se, ss) and the maze's own as_ascii(se, ss)
     argmod  names of the caller's own argument objects (connection list, cell values, path coordinates, ...)
             whose contents differ (deep comparison) after plot() / to_ascii() from a snapshot taken before the call
   Layer P (the statement): plot_raises, image_size, cell_blocks, cell_values, connected_strip_not_passage,
     unconnected_strip_not_wall, image_placement, path_polylines, endpoint_markers, marker_off_listed_cells,
     ascii_export (to_ascii with its default flags).
   Layer M: M:image_model, M:passage_value_of_unit_cell (Plot.tla), M:marked_coords, M:marker_count,
     M:ascii_export_flags (to_ascii(se, ss) = as_ascii(se, ss) for the non-default flag pairs),
     M:argument_modified (the statement says nothing about the arguments; its stated consequences - a wrong
     export / second plot - are Layer P through the ordinary clauses), M:input_malformed (driver produced a case
     outside the scope).  A predicted path may be EMPTY (it lists no cell: nothing is drawn for it).
   Shapes with a side of 1 (1x1, 1xN, Nx1) are outside the quantifier ("grid sizes 2..8"): every clause c of such
     a record is reported as the Layer-M clause "M:outside_grid_sizes:" \o c.
   X:rle_* = the two encodings of one image disagree / malformed encoding: harness machinery, not a verdict. *)
EXTENDS Plot, Json, IOUtils, SequencesExt
Log == ndJsonDeserialize(IOEnv.VERIF_LOG)

Pt(x) == <<x[1], x[2]>>
NormPts(p) == [i \in 1..Len(p) |-> Pt(p[i])]
RangeOf(q) == {q[i] : i \in 1..Len(q)}
CountIn(q, x) == Cardinality({i \in 1..Len(q) : q[i] = x})
BagEq(D, E) == \A x \in RangeOf(D) \cup RangeOf(E) : CountIn(D, x) = CountIn(E, x)
PathCells(p) == [i \in 1..Len(p) |-> Cell(p[i])]

InScope(r) ==
  LET m == r.maze IN
  /\ m.kind \in Kinds /\ m.R >= 1 /\ m.C >= 1 /\ r.ul >= 3
  /\ WellShaped(m.R, m.C, m.conn) /\ InGrid(m.R, m.C, m.conn)
  /\ IF HasEnds(m) THEN Len(m.start) = 2 /\ Len(m.end) = 2 /\ InGridCell(m.R, m.C, m.start) /\ InGridCell(m.R, m.C, m.end)
                   ELSE m.start = <<>> /\ m.end = <<>>
  /\ IF IsSolved(m) THEN Len(m.sol) >= 1 /\ Cell(m.sol[1]) = Cell(m.start) /\ Cell(m.sol[Len(m.sol)]) = Cell(m.end)
                         /\ \A i \in 1..Len(m.sol) : InGridCell(m.R, m.C, m.sol[i])
                    ELSE m.sol = <<>>
  /\ r.hasnv => /\ Len(r.nv) = m.R
                /\ \A i \in 1..m.R : Len(r.nv[i]) = m.C /\ \A j \in 1..m.C : r.nv[i][j] \notin {NaNV, InexactV}
  /\ r.tpset => Len(r.tp) >= 1 /\ \A i \in 1..Len(r.tp) : InGridCell(m.R, m.C, r.tp[i])
  /\ \A n \in 1..Len(r.preds) : \A i \in 1..Len(r.preds[n]) : InGridCell(m.R, m.C, r.preds[n][i])
  /\ \A i \in 1..Len(r.marks) : InGridCell(m.R, m.C, r.marks[i])

(* ---------------- the image ---------------- *)
ImagePart(r) ==
  LET m == r.maze
      VR(q) == RawVals(r.img, q)
      VL(q) == RleVals(r.pats, r.vruns, q)
      hasRaw == r.enc \in {"raw", "both"}
      hasRle == r.enc \in {"rle", "both"}
      cr == IF hasRaw THEN ImageClauses(m.R, m.C, m.conn, r.ul, r.hasnv, r.nv, RawH(r.img), RawW(r.img), RawRectangular(r.img), VR) ELSE {}
      cl == IF ~hasRle THEN {}
            ELSE IF ~RleOK(r.pats, r.vruns) THEN {"X:rle_malformed"}
            ELSE ImageClauses(m.R, m.C, m.conn, r.ul, r.hasnv, r.nv, RleH(r.pats, r.vruns), RleW(r.pats, r.vruns), TRUE, VL)
      H == ImgH(m.R, r.ul)  W == ImgW(m.C, r.ul)
      \* pixel (y, x) is drawn with its centre at data coordinates (x, y): the picture lies where the paths are drawn
      placed == /\ Len(r.ext) = 4 /\ r.ext[1] = 0 - 1 /\ r.ext[2] = 2 * W - 1
                /\ \/ r.origin = "upper" /\ r.ext[4] = 0 - 1 /\ r.ext[3] = 2 * H - 1
                   \/ r.origin = "lower" /\ r.ext[3] = 0 - 1 /\ r.ext[4] = 2 * H - 1
  IN (IF ~(hasRaw \/ hasRle) THEN {"image_size"} ELSE cr \cup cl)
     \cup (IF r.enc = "both" /\ cr # cl THEN {"X:rle_disagrees_with_raw"} ELSE {})
     \cup (IF placed THEN {} ELSE {"image_placement"})

(* ---------------- paths and markers ---------------- *)
QuivOK(q) == /\ Len(q.Y) = Len(q.X) /\ Len(q.U) = Len(q.X) /\ Len(q.V) = Len(q.X)
             /\ \A i \in 1..(Len(q.X) - 1) : q.X[i + 1] = q.X[i] + q.U[i] /\ q.Y[i + 1] = q.Y[i] + q.V[i]
QuivVerts(q) == LET n == Len(q.X) IN
  [i \in 1..(n + 1) |-> IF i <= n THEN <<q.X[i], q.Y[i]>> ELSE <<q.X[n] + q.U[n], q.Y[n] + q.V[n]>>]

PathPart(r) ==
  LET m == r.maze  ul == r.ul
      Poly(p) == [i \in 1..Len(p) |-> Coord2(Cell(p[i]), ul)]
      trueFixed == IF r.tpset THEN <<r.tp>> ELSE IF m.kind = KSolved THEN <<m.sol>> ELSE <<>>
      \* a targeted maze is solved by the plot itself: any shortest path start -> end is the true path
      tdef == ~r.tpset /\ m.kind = KTargeted
      tdefLine == tdef /\ Cell(m.start) # Cell(m.end)
      \* an empty predicted path lists no cell: no polyline, no endpoint, no marker
      fixed == SelectSeq(trueFixed \o r.preds, LAMBDA p : Len(p) >= 1)
      E == SelectSeq([i \in 1..Len(fixed) |-> Poly(fixed[i])], LAMBDA p : Len(p) >= 2)
      segLines == SelectSeq(r.lines, LAMBDA a : a.ls # "None" /\ Len(a.pts) >= 2)
      arrows == SelectSeq(r.quiv, LAMBDA q : Len(q.X) >= 1)
      quivBroken == \E i \in 1..Len(arrows) : ~QuivOK(arrows[i])
      D == [i \in 1..Len(segLines) |-> NormPts(segLines[i].pts)] \o [i \in 1..Len(arrows) |-> QuivVerts(arrows[i])]
      isTrueOfTargeted(d) == LET q == [i \in 1..Len(d) |-> CellOfPt(d[i], ul)] IN
                               Poly(q) = d /\ IsShortestPath(m.R, m.C, m.conn, q, Cell(m.start), Cell(m.end))
      polyOK == IF quivBroken THEN FALSE
                ELSE IF tdefLine THEN \E i \in 1..Len(D) : isTrueOfTargeted(D[i]) /\ BagEq(RemoveIdx(D, i), E)
                ELSE BagEq(D, E)
      markers == SelectSeq(r.lines, LAMBDA a : a.mk # "None")
      ends == {<<Coord2(Cell(fixed[i][1]), ul), Coord2(Cell(fixed[i][Len(fixed[i])]), ul)>> : i \in 1..Len(fixed)}
              \cup (IF tdef THEN {<<Coord2(Cell(m.start), ul), Coord2(Cell(m.end), ul)>>} ELSE {})
      markPos == {Coord2(Cell(r.marks[i]), ul) : i \in 1..Len(r.marks)}
      allowed == {e[1] : e \in ends} \cup {e[2] : e \in ends} \cup markPos
      hasMarker(sym, pos) == \E i \in 1..Len(markers) : markers[i].mk = sym /\ NormPts(markers[i].pts) = <<pos>>
      nPaths == Len(fixed) + (IF tdef THEN 1 ELSE 0)
  IN (IF polyOK THEN {} ELSE {"path_polylines"})
     \cup (IF \A e \in ends : hasMarker("o", e[1]) /\ hasMarker("x", e[2]) THEN {} ELSE {"endpoint_markers"})
     \cup (IF \A i \in 1..Len(markers) : \A j \in 1..Len(markers[i].pts) : Pt(markers[i].pts[j]) \in allowed THEN {} ELSE {"marker_off_listed_cells"})
     \cup (IF \A p \in markPos : \E i \in 1..Len(markers) : NormPts(markers[i].pts) = <<p>> THEN {} ELSE {"M:marked_coords"})
     \cup (IF Len(markers) = 2 * nPaths + Len(r.marks) THEN {} ELSE {"M:marker_count"})

(* ---------------- ASCII export ---------------- *)
\* the drawn true path of a targeted maze, read back from the picture: the ASCII export must show the
\* same solved maze (definition of the drawing: Pixels.tla)
AsciiPart(r) ==
  LET m == r.maze  ul == r.ul
      tdef == ~r.tpset /\ m.kind = KTargeted
      agrees(a) == a.res = a.own_res /\ (a.res = "ok" => a.rows = a.own)
      \* the export proper (default flags) is the statement; how other flag pairs are forwarded is left open
      same == \A i \in 1..Len(r.asc) : (r.asc[i].se /\ r.asc[i].ss) => agrees(r.asc[i])
      sameFlags == \A i \in 1..Len(r.asc) : agrees(r.asc[i])
      segLines == SelectSeq(r.lines, LAMBDA a : a.ls # "None" /\ Len(a.pts) >= 2)
      cands == IF Cell(m.start) = Cell(m.end) THEN {<<Cell(m.start)>>}
               ELSE {q \in {[j \in 1..Len(segLines[i].pts) |-> CellOfPt(segLines[i].pts[j], ul)] : i \in 1..Len(segLines)} :
                       IsShortestPath(m.R, m.C, m.conn, q, Cell(m.start), Cell(m.end))}
      shows(a, q) == AsciiClauses(PxImage([kind |-> KSolved, R |-> m.R, C |-> m.C, conn |-> m.conn, start |-> Cell(m.start), end |-> Cell(m.end), sol |-> q], TRUE, TRUE), a.rows) = {}
      solved == \A i \in 1..Len(r.asc) : LET a == r.asc[i] IN (a.se /\ a.ss /\ a.res = "ok") => \E q \in cands : shows(a, q)
  IN (IF same /\ (tdef => solved) THEN {} ELSE {"ascii_export"})
     \cup (IF sameFlags THEN {} ELSE {"M:ascii_export_flags"})

StatedAndModel(r) ==
  LET m == r.maze
      unsolvable == m.kind = KTargeted /\ Dist(m.R, m.C, m.conn, Cell(m.start), Cell(m.end)) = Infinity
  IN (IF r.res # "ok" THEN (IF unsolvable THEN {} ELSE {"plot_raises"})
      ELSE ImagePart(r) \cup PathPart(r) \cup AsciiPart(r))
     \cup (IF Len(r.argmod) > 0 THEN {"M:argument_modified"} ELSE {})
\* a side of 1 is outside the quantifier of the statement: conformance only (X:* stays harness machinery)
OutsideGridSizes(m) == m.R < 2 \/ m.C < 2
Clauses(r) ==
  IF ~InScope(r) THEN {"M:input_malformed"}
  ELSE LET cs == StatedAndModel(r) IN
       IF OutsideGridSizes(r.maze)
         THEN {IF c \in {"X:rle_malformed", "X:rle_disagrees_with_raw"} THEN c ELSE "M:outside_grid_sizes:" \o c : c \in cs}
         ELSE cs

VARIABLES l, bad
TInit == l = 1 /\ bad = {} /\ g = <<>> /\ img = <<>> /\ k = 0 /\ pc = "trace"
TNext == /\ l <= Len(Log) /\ l' = l + 1
         /\ bad' = bad \cup (LET cs == Clauses(Log[l]) IN IF cs = {} THEN {} ELSE {[id |-> Log[l].id, c |-> cs]})
         /\ UNCHANGED pvars
TSpec == TInit /\ [][TNext]_<<l, bad, pvars>>
Done == (l = Len(Log) + 1) =>
          ndJsonSerialize(IOEnv.VERIF_OUT, <<[id |-> -1, c |-> {ToString(Len(Log))}]>> \o SetToSeq(bad))
=========================================================================
