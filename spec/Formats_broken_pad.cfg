CONSTANTS MaxMazes = 4
          MaxLen = 4
          MaxMembers = 2
          Broken = TRUE
          BrokenLoader = "pad"
SPECIFICATION Spec
INVARIANT RoundTrip
CHECK_DEADLOCK FALSE
