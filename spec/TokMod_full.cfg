CONSTANTS DShapes <- ShapesAdjFull
CONSTANTS DPathShapes <- ShapesPathFull
CONSTANTS DCoords <- CoordSpace
CONSTANTS MaxShuffle = 4
CONSTANTS DBug = "none"
SPECIFICATION Spec
INVARIANT AcceptsEveryShuffle
INVARIANT DecodesToTheMaze
INVARIANT AdjInVocab
INVARIANT RejectsOtherMazes
INVARIANT RejectsSingleChange
INVARIANT PathChains
INVARIANT PathInVocab
INVARIANT SinglesDetermineSolution
CHECK_DEADLOCK FALSE
