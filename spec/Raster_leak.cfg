CONSTANTS Shapes <- ShapesTiny
CONSTANTS Variant = "leak"
SPECIFICATION Spec
INVARIANT InputHidesSolution
CHECK_DEADLOCK FALSE
