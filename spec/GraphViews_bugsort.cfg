CONSTANTS Shapes <- ShapesTiny
CONSTANTS BugWestSlice = FALSE
CONSTANTS BugNoSort = TRUE
SPECIFICATION Spec
INVARIANT TypeOK
INVARIANT InvPairs
INVARIANT InvNeighbours
INVARIANT InvComponents
INVARIANT InvPaths
INVARIANT InvAdjList
INVARIANT InvRebuild
INVARIANT InvForks
PROPERTY ToggleProp
CHECK_DEADLOCK FALSE
