CONSTANTS Shapes <- Shapes2x2
CONSTANTS ULs <- ULsDeep
CONSTANTS TransposeCoord = FALSE
CONSTANTS SwapStripIndex = TRUE
CONSTANTS HackInBothBranches = FALSE
CONSTANTS Deep = FALSE
SPECIFICATION Spec
INVARIANT Partition
INVARIANT StripBijection
INVARIANT CoordCentre
INVARIANT StripIndexing
INVARIANT PaintsInside
INVARIANT Faithful
INVARIANT ModelCovers
INVARIANT Determined
INVARIANT RleAgrees
CHECK_DEADLOCK FALSE
