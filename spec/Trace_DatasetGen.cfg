CONSTANTS Cfgs <- CfgsAB
  NMazes = 4  MaxWorkers = 4  MaxCalls = 3  InitSetsGlobal = TRUE  SerialInits = TRUE
SPECIFICATION TSpec
INVARIANT Done
CHECK_DEADLOCK FALSE
