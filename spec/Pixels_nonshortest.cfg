CONSTANTS Shapes <- ShapesTiny
CONSTANTS ShortestOnly = FALSE
CONSTANTS Deep = FALSE
SPECIFICATION Spec
INVARIANT NeverStuck
CHECK_DEADLOCK FALSE
