---------------------------- MODULE Trace_Formats ----------------------------
(* Use (C) for C05: every record is one observed history
       Build dataset -> Serialize(format) [-> file] -> Load
   of the real code (MazeDataset, or a MazeDatasetCollection = sequence of such members), logged as raw
   arrays.  The record is accepted iff the loaded dataset is what Formats.tla says a round trip must
   return.  Layer P (the property's own clauses):
     round_trip_raises, maze_count_differs, connections_differ, solution_differs, start_differs,
     end_differs, config_differs, config_unequal_by_library, collected_metadata_differs,
     format_not_selected_by_threshold, member_count_differs, collection_config_differs
   Layer M ("M:" prefix, conformance of the observed intermediate arrays / bookkeeping to the model):
     M:encoding_lengths, M:encoding_padded, M:encoding_concat, M:encoding_connections,
     M:encoding_endpoints, M:loader_model, M:collected_model, M:config_n_mazes, M:format_tag *)
EXTENDS Formats, Json, IOUtils, SequencesExt
Log == ndJsonDeserialize(IOEnv.VERIF_LOG)

\* ---- abstraction of the logged maps / configs (done here, not in the harness)
CollMap(c) ==
  [present |-> c.present,
   keys |-> {c.m[i].k : i \in 1..Len(c.m)},
   cnt |-> UNION {{<<c.m[i].k, c.m[i].vc[j].v, c.m[i].vc[j].n>> : j \in 1..Len(c.m[i].vc)} : i \in 1..Len(c.m)}]

\* text of a collected key as Python's str() / JSON writes it
CoordText(c) == "(" \o ToString(c[1]) \o ", " \o ToString(c[2]) \o ")"
EntryTexts(e) ==
  IF e.kind = "bool" THEN <<IF e.ints[1][1] = 1 THEN "True" ELSE "False">>
  ELSE IF e.kind = "int" THEN <<ToString(e.ints[1][1])>>
  ELSE IF e.kind = "text" THEN e.texts
  ELSE [j \in 1..Len(e.ints) |-> CoordText(e.ints[j])]
Metas(m) == [i \in 1..Len(m.permeta) |->
               [a \in 1..Len(m.permeta[i]) |-> [k |-> m.permeta[i][a].k, v |-> EntryTexts(m.permeta[i][a])]]]

\* the compared fields of a config (n_mazes is compare=False in the library)
CfgCore(c) == [name |-> c.name, grid_n |-> c.grid_n, seed |-> c.seed, smin |-> c.smin, smax |-> c.smax,
               ctor |-> c.ctor, ckw |-> c.ckw, ekw |-> c.ekw, filters |-> c.filters]
CollectEntry == <<CollectFilterName, "[]", "{}">>
ExpectedCfg(m) ==
  [CfgCore(m.pre_cfg) EXCEPT !.filters =
     @ \o (IF WillCollect(m.fmt, m.pre_coll.present, m.has_meta) THEN <<CollectEntry>> ELSE <<>>)]

FormatOfPath(p) == IF p = "full" THEN FULL ELSE IF p = "minimal" THEN MINIMAL ELSE CAT

\* ---- one dataset (a stand-alone record or a member of a collection)
EncClauses(m) ==
  IF ~m.enc.has THEN {} ELSE
  LET e == m.enc  sols == m.o.sol IN
    (IF e.lens = Lens(sols) THEN {} ELSE {"M:encoding_lengths"})
    \cup (IF e.conn = m.o.conn THEN {} ELSE {"M:encoding_connections"})
    \cup (IF m.fmt = MINIMAL
          THEN (IF IsPadOf(e.pad, sols) THEN {} ELSE {"M:encoding_padded"})
               \cup (IF DecPad(e.lens, e.pad) = m.ld.sol THEN {} ELSE {"M:loader_model"})
          ELSE (IF e.cat = EncCat(sols) THEN {} ELSE {"M:encoding_concat"})
               \cup (IF e.ends = [i \in 1..Len(sols) |-> <<m.o.start[i], m.o.end[i]>>] THEN {} ELSE {"M:encoding_endpoints"})
               \cup (LET z == ZipMazes(e.conn, DecCat(e.lens, e.cat))
                     IN IF [i \in 1..Len(z) |-> z[i].sol] = m.ld.sol THEN {} ELSE {"M:loader_model"}))

MemberClauses(m) ==
  LET expColl == IF m.pre_coll.present THEN m.pre_coll ELSE m.post_coll IN
    (IF m.ld.n = m.n /\ Len(m.ld.conn) = m.n /\ Len(m.ld.sol) = m.n THEN {} ELSE {"maze_count_differs"})
    \cup (IF m.ld.conn = m.o.conn THEN {} ELSE {"connections_differ"})
    \cup (IF m.ld.sol = m.o.sol THEN {} ELSE {"solution_differs"})
    \cup (IF m.ld.start = m.o.start THEN {} ELSE {"start_differs"})
    \cup (IF m.ld.end = m.o.end THEN {} ELSE {"end_differs"})
    \cup (IF CfgCore(m.ld_cfg) = ExpectedCfg(m) THEN {} ELSE {"config_differs"})
    \cup (IF m.lib_cfg_eq THEN {} ELSE {"config_unequal_by_library"})
    \cup (IF expColl.present /\ CollMap(m.ld_coll) # CollMap(expColl) THEN {"collected_metadata_differs"} ELSE {})
    \* (a configuration whose n_mazes already disagreed with the number of mazes - m.stale - makes no promise about the field)
    \cup (IF m.stale \/ m.ld_cfg.n_mazes = m.pre_cfg.n_mazes THEN {} ELSE {"M:config_n_mazes"})
    \cup (IF WillCollect(m.fmt, m.pre_coll.present, m.has_meta) /\ CollMap(m.ld_coll) # Collect(Metas(m))
          THEN {"M:collected_model"} ELSE {})
    \cup EncClauses(m)

SelectClauses(m, path) ==
  IF path = "serialize"
  THEN (IF m.fmt = Select([none |-> m.thr_none, v |-> m.thr], m.n) THEN {} ELSE {"format_not_selected_by_threshold"})
  ELSE (IF m.fmt = FormatOfPath(path) THEN {} ELSE {"M:format_tag"})

CollClauses(r) ==
  (IF r.ld_nm = r.nm THEN {} ELSE {"member_count_differs"})
  \cup UNION {MemberClauses(r.members[k]) \cup SelectClauses(r.members[k], "serialize") : k \in 1..Len(r.members)}
  \cup (IF r.c_pre_coll.present /\ CollMap(r.c_ld_coll) # CollMap(r.c_pre_coll) THEN {"collected_metadata_differs"} ELSE {})
  \cup (IF /\ r.ld_ccfg = r.pre_ccfg
           /\ Len(r.ld_mcfgs) = r.nm
           \* the member configs held by the collection config: as before the call, or with the
           \* documented collect entry (either is an equal configuration in the sense of the statement)
           /\ \A k \in 1..FMinI(r.nm, Len(r.ld_mcfgs)) :
                CfgCore(r.ld_mcfgs[k]) \in {CfgCore(r.members[k].pre_cfg), ExpectedCfg(r.members[k])}
        THEN {} ELSE {"collection_config_differs"})

Clauses(r) ==
  IF r.res # "ok" THEN {"round_trip_raises"}
  ELSE IF r.kind = "ds" THEN MemberClauses(r) \cup SelectClauses(r, r.path)
  ELSE CollClauses(r)

VARIABLES l, bad
\* the design-level variables of Formats are not used by the oracle: parked in their initial state
Init0 == Init /\ l = 1 /\ bad = {}
Next0 == /\ l <= Len(Log) /\ l' = l + 1 /\ UNCHANGED vars
         /\ bad' = bad \cup (LET cs == Clauses(Log[l]) IN IF cs = {} THEN {} ELSE {[id |-> Log[l].id, c |-> cs]})
TSpec == Init0 /\ [][Next0]_<<vars, l, bad>>
Done == (l = Len(Log) + 1) =>
          ndJsonSerialize(IOEnv.VERIF_OUT, <<[id |-> -1, c |-> {ToString(Len(Log))}]>> \o SetToSeq(bad))
=============================================================================
