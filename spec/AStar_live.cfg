CONSTANTS Shapes <- ShapesSmall
SPECIFICATION FairSpec
PROPERTY Answered
PROPERTY Terminates
CHECK_DEADLOCK FALSE
