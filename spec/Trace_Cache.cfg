CONSTANTS Cfgs <- CfgsC12
  W = 3  MaxFaults = 3  MaxReqs = 3  CheckDiff = TRUE  SwallowReadErrors = TRUE
SPECIFICATION TSpec
INVARIANT Done
CHECK_DEADLOCK FALSE
