CONSTANTS MazeVals <- MazeVals8
  MaxLen = 3  MaxOps = 2  DeepCopy = FALSE
SPECIFICATION Spec
INVARIANT InputUntouched
CHECK_DEADLOCK FALSE
