\* design check of the token / coordinate utility layer: lexer over every string of <= 5 characters and every viable prefix + 1 character up to 8 (x allow_whitespace),
\* splitter over every string of <= 5 characters, tokens_between over every token list of <= 5 tokens x delimiters x flags,
\* every pair of plain 2x2 mazes (UT), the theorems about the plain definitions
SPECIFICATION Spec
CONSTANTS
  Machines = {"lex", "split", "tb", "fp", "thm"}
  LexAlphabet = {"(", ")", ",", " ", "0", "1", "9", "a"}
  FullLex = 5
  MaxLex = 8
  SplitAlphabet = {"(", ")", " ", "0", ","}
  MaxSplit = 5
  MaxTB = 5
  FPCoord = "UT"
  Broken = "none"
INVARIANTS LexerIsDefinition LenientOnCoords CoordIsOneToken QuirkIsNarrow
           SplitterIsDefinition SplitPartitions SplitOfJoin
           TBMachineIsDefinition TBSlice TBErrorsExact GettersConsistent
           SameMazeAccepted FalsePositiveMeansSameDegrees
           ThmTableIsLexed ThmDirections ThmArrays ThmStrings
CHECK_DEADLOCK FALSE
