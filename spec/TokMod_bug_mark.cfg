CONSTANTS DShapes <- ShapesTiny12
CONSTANTS DPathShapes <- NoShapes
CONSTANTS DCoords <- CoordsUT
CONSTANTS MaxShuffle = 3
CONSTANTS DBug = "mark_inverted_at_origin"
SPECIFICATION Spec
INVARIANT AcceptsEveryShuffle
CHECK_DEADLOCK FALSE
