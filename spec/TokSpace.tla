------------------------------ MODULE TokSpace ------------------------------
(* C15 -- the tokenizer configuration space, stated explicitly and independently of the code.

   A configuration is a record  [cls |-> <class name>, <field> |-> <value or nested configuration> ...]
   with exactly the field names of the library's dataclasses (the hidden `_type_` field is not part of a
   configuration).  For every element family the module gives

     *Raw     the PARAMETER space: every class of the family x every value of every field;
     *Valid   the VALIDITY RULES (adjacency lists need pre = FALSE; the classes marked unsupported --
              ByLeadingCoord, Straightaways, ForksAndStraightaways -- are excluded; a tuple of step
              tokenizers is a non-empty duplicate-free sequence other than <<Distance>>);
     plain    the valid space  {c \in Raw : Valid(c)}  (what enumeration must yield, each once);
     *Toks    the NAME GRAMMAR as a sequence of lexical tokens ("(" , ")" and ", " are tokens of their
              own and occur in no other token), Str(toks) = the name as a string.

   The complete tokenizers are the two prompt-sequencer shapes
        AOTP(coord, adj, target, path)      9 * 216 * 2 * 1008 = 3 919 104
        AOP (coord, adj,         path)      9 * 216     * 1008 = 1 959 552        sum = 5 878 656
   (AOP has NO target tokenizer field, hence no factor 2), too many for TLC to enumerate as strings; the
   name of a complete tokenizer is injective BY COMPOSITION: every element name is well nested (its
   first "(" closes only at its last token), so the top-level ", " separators of a complete name are
   determined by the string alone and equal names imply equal components (WellNested + NameInjective).

   TLC checks (TokSpace_small.cfg): cardinalities 9 / 216 / 2 / 1008 (and the raw spaces), the product,
   name injectivity and well-nestedness per family, the piecewise composition used by the driver, the
   legacy-equivalent set.  With AdmitPre = TRUE (TokSpace_broken.cfg: a validity rule that lets
   pre = TRUE through) TLC must report CardInv violated.
   When IOEnv.VERIF_EMIT is set, the element name sets and the top-level format are written there
   (ndjson) so that the driver can compose the spec's product set and compare it with the real names. *)
EXTENDS Integers, Sequences, FiniteSets, TLC, Json, IOUtils, SequencesExt

CONSTANT AdmitPre       \* FALSE = the real rule; TRUE = deliberately broken design (non-vacuity guard)

B(b) == IF b THEN "T" ELSE "F"
Flag(ok, name) == IF ok THEN {} ELSE {name}

--------------------------------------------------------------------------
(* parameter spaces (every class, every field value) *)
CoordRaw    == {[cls |-> "UT"]} \cup {[cls |-> "CTT", pre |-> a, intra |-> b, post |-> c] : a, b, c \in BOOLEAN}
GroupingRaw == {[cls |-> "Ungrouped", connection_token_ordinal |-> k] : k \in 0..2}
               \cup {[cls |-> "ByLeadingCoord", intra |-> a, shuffle_group |-> b, connection_token_ordinal |-> k] :
                       a, b \in BOOLEAN, k \in 0..1}
PermuterRaw == {[cls |-> c] : c \in {"SortedCoords", "RandomCoords", "BothCoords"}}
SubsetRaw   == {[cls |-> "AllLatticeEdges"]} \cup {[cls |-> "ConnectionEdges", walls |-> w] : w \in BOOLEAN}
AdjClasses  == {"AdjListCoord", "AdjListCardinal"}
AdjRaw      == {[cls |-> c, pre |-> a, post |-> b, shuffle_d0 |-> s, edge_grouping |-> g, edge_subset |-> su, edge_permuter |-> pe] :
                  c \in AdjClasses, a, b, s \in BOOLEAN, g \in GroupingRaw, su \in SubsetRaw, pe \in PermuterRaw}
TargetRaw   == {[cls |-> "Unlabeled", post |-> b] : b \in BOOLEAN}
StepSizeRaw == {[cls |-> c] : c \in {"Singles", "Straightaways", "Forks", "ForksAndStraightaways"}}
StepKinds   == {"Coord", "Cardinal", "Relative", "Distance"}
StepTokRaw  == {[cls |-> c] : c \in StepKinds}
\* the type of the field is tuple[S] | tuple[S,S] | tuple[S,S,S] | tuple[S,S,S,S]
StepTupleRaw == {<<a>> : a \in StepTokRaw} \cup {<<a, b>> : a, b \in StepTokRaw}
                \cup {<<a, b, c>> : a, b, c \in StepTokRaw} \cup {<<a, b, c, d>> : a, b, c, d \in StepTokRaw}
PathRaw     == {[cls |-> "StepSequence", step_size |-> z, step_tokenizers |-> st, pre |-> a, intra |-> b, post |-> c] :
                  z \in StepSizeRaw, st \in StepTupleRaw, a, b, c \in BOOLEAN}

(* validity rules *)
CoordValid(c)    == TRUE
GroupingValid(g) == g.cls = "Ungrouped"                                   \* ByLeadingCoord is marked unsupported
PermuterValid(p) == TRUE
SubsetValid(s)   == TRUE
AdjValid(a)      == (AdmitPre \/ a.pre = FALSE) /\ GroupingValid(a.edge_grouping)
                    /\ SubsetValid(a.edge_subset) /\ PermuterValid(a.edge_permuter)
TargetValid(t)   == TRUE
StepSizeValid(z) == z.cls \in {"Singles", "Forks"}                        \* the other two are marked unsupported
StepTokValid(s)  == TRUE
StepTupleValid(st) == /\ \A i, j \in 1..Len(st) : i # j => st[i] # st[j]
                      /\ st # <<[cls |-> "Distance"]>>
PathValid(p)     == StepSizeValid(p.step_size) /\ StepTupleValid(p.step_tokenizers)

(* the valid spaces *)
Coord     == {c \in CoordRaw : CoordValid(c)}
Grouping  == {g \in GroupingRaw : GroupingValid(g)}
Permuter  == {p \in PermuterRaw : PermuterValid(p)}
Subset    == {s \in SubsetRaw : SubsetValid(s)}
Adj       == {a \in AdjRaw : AdjValid(a)}
Target    == {t \in TargetRaw : TargetValid(t)}
StepSize  == {z \in StepSizeRaw : StepSizeValid(z)}
StepTok   == {s \in StepTokRaw : StepTokValid(s)}
StepTuple == {st \in StepTupleRaw : StepTupleValid(st)}
Path      == {p \in PathRaw : PathValid(p)}

Families == {"coord", "grouping", "permuter", "subset", "adj", "target", "stepsize", "steptok", "path"}
RawOf(K) == CASE K = "coord" -> CoordRaw [] K = "grouping" -> GroupingRaw [] K = "permuter" -> PermuterRaw
              [] K = "subset" -> SubsetRaw [] K = "adj" -> AdjRaw [] K = "target" -> TargetRaw
              [] K = "stepsize" -> StepSizeRaw [] K = "steptok" -> StepTokRaw [] K = "path" -> PathRaw
SpaceOf(K) == CASE K = "coord" -> Coord [] K = "grouping" -> Grouping [] K = "permuter" -> Permuter
              [] K = "subset" -> Subset [] K = "adj" -> Adj [] K = "target" -> Target
              [] K = "stepsize" -> StepSize [] K = "steptok" -> StepTok [] K = "path" -> Path

\* the validity rule of family K as a predicate (membership in the filtered sets above is slow in TLC)
ValidOf(K, c) == CASE K = "coord" -> CoordValid(c) [] K = "grouping" -> GroupingValid(c) [] K = "permuter" -> PermuterValid(c)
                   [] K = "subset" -> SubsetValid(c) [] K = "adj" -> AdjValid(c) [] K = "target" -> TargetValid(c)
                   [] K = "stepsize" -> StepSizeValid(c) [] K = "steptok" -> StepTokValid(c) [] K = "path" -> PathValid(c)
InSpace(K, c) == c \in RawOf(K) /\ ValidOf(K, c)

--------------------------------------------------------------------------
(* name grammar: token sequences *)
\* FlattenSeq (SequencesExt) concatenates a sequence of sequences
RECURSIVE Str(_)
Str(toks) == IF toks = <<>> THEN "" ELSE Head(toks) \o Str(Tail(toks))
\* members joined by the separator token ", "
RECURSIVE JoinSep(_)
JoinSep(ms) == IF ms = <<>> THEN <<>> ELSE IF Len(ms) = 1 THEN ms[1] ELSE ms[1] \o <<", ">> \o JoinSep(Tail(ms))
Elem(cls, members) == <<cls, "(">> \o JoinSep(members) \o <<")">>
BF(k, b) == <<k \o "=" \o B(b)>>               \* a Boolean field prints as k=T / k=F
IF_(k, n) == <<k \o "=" \o ToString(n)>>       \* any other scalar prints as k=<value>
\* a tuple field prints as k=(<elem>, <elem>, ) -- every element is FOLLOWED by ", "
TupleField(k, elemToks) == <<k \o "=", "(">> \o FlattenSeq([i \in 1..Len(elemToks) |-> elemToks[i] \o <<", ">>]) \o <<")">>

CoordToks(c)    == IF c.cls = "UT" THEN Elem("UT", <<>>)
                   ELSE Elem("CTT", <<BF("pre", c.pre), BF("intra", c.intra), BF("post", c.post)>>)
GroupingToks(g) == IF g.cls = "Ungrouped" THEN Elem("Ungrouped", <<IF_("connection_token_ordinal", g.connection_token_ordinal)>>)
                   ELSE Elem("ByLeadingCoord", <<BF("intra", g.intra), BF("shuffle_group", g.shuffle_group),
                                                 IF_("connection_token_ordinal", g.connection_token_ordinal)>>)
PermuterToks(p) == Elem(p.cls, <<>>)
SubsetToks(s)   == IF s.cls = "AllLatticeEdges" THEN Elem("AllLatticeEdges", <<>>) ELSE Elem("ConnectionEdges", <<BF("walls", s.walls)>>)
AdjToks(a)      == Elem(a.cls, <<BF("pre", a.pre), BF("post", a.post), BF("shuffle_d0", a.shuffle_d0),
                                 GroupingToks(a.edge_grouping), SubsetToks(a.edge_subset), PermuterToks(a.edge_permuter)>>)
TargetToks(t)   == Elem("Unlabeled", <<BF("post", t.post)>>)
StepSizeToks(z) == Elem(z.cls, <<>>)
StepTokToks(s)  == Elem(s.cls, <<>>)
PathToks(p)     == Elem("StepSequence", <<StepSizeToks(p.step_size),
                                          TupleField("step_tokenizers", [i \in 1..Len(p.step_tokenizers) |-> StepTokToks(p.step_tokenizers[i])]),
                                          BF("pre", p.pre), BF("intra", p.intra), BF("post", p.post)>>)
ToksOf(K, c) == CASE K = "coord" -> CoordToks(c) [] K = "grouping" -> GroupingToks(c) [] K = "permuter" -> PermuterToks(c)
                  [] K = "subset" -> SubsetToks(c) [] K = "adj" -> AdjToks(c) [] K = "target" -> TargetToks(c)
                  [] K = "stepsize" -> StepSizeToks(c) [] K = "steptok" -> StepTokToks(c) [] K = "path" -> PathToks(c)
NameOf(K, c) == Str(ToksOf(K, c))
NamesOf(K)   == {NameOf(K, c) : c \in SpaceOf(K)}

(* complete tokenizers *)
SeqParts(cls) == IF cls = "AOTP" THEN <<"coord", "adj", "target", "path">> ELSE <<"coord", "adj", "path">>
SeqClasses == {"AOTP", "AOP"}
FieldOf(K) == CASE K = "coord" -> "coord_tokenizer" [] K = "adj" -> "adj_list_tokenizer"
                [] K = "target" -> "target_tokenizer" [] K = "path" -> "path_tokenizer"
SeqFields(cls) == {"cls"} \cup {FieldOf(SeqParts(cls)[i]) : i \in 1..Len(SeqParts(cls))}
\* q is a prompt-sequencer configuration of the parameter space / of the valid space
IsSeqRaw(q) == /\ "cls" \in DOMAIN q /\ q.cls \in SeqClasses /\ DOMAIN q = SeqFields(q.cls)
               /\ \A i \in 1..Len(SeqParts(q.cls)) : q[FieldOf(SeqParts(q.cls)[i])] \in RawOf(SeqParts(q.cls)[i])
SeqValid(q) == \A i \in 1..Len(SeqParts(q.cls)) : InSpace(SeqParts(q.cls)[i], q[FieldOf(SeqParts(q.cls)[i])])
SeqToks(q) == Elem(q.cls, [i \in 1..Len(SeqParts(q.cls)) |-> ToksOf(SeqParts(q.cls)[i], q[FieldOf(SeqParts(q.cls)[i])])])
IsTokRaw(t) == DOMAIN t = {"cls", "prompt_sequencer"} /\ t.cls = "MazeTokenizerModular" /\ IsSeqRaw(t.prompt_sequencer)
TokValid(t) == SeqValid(t.prompt_sequencer)
TokToks(t)  == <<"MazeTokenizerModular", "-">> \o SeqToks(t.prompt_sequencer)
TokName(t)  == Str(TokToks(t))
\* the same name composed from already rendered component names (what the driver does with the emitted pieces)
RECURSIVE JoinStr(_, _)
JoinStr(ss, sep) == IF ss = <<>> THEN "" ELSE IF Len(ss) = 1 THEN ss[1] ELSE ss[1] \o sep \o JoinStr(Tail(ss), sep)
Compose(cls, partNames) == "MazeTokenizerModular" \o "-" \o cls \o "(" \o JoinStr(partNames, ", ") \o ")"

Card(K) == Cardinality(SpaceOf(K))
PredictedSeq(cls) == IF cls = "AOTP" THEN Card("coord") * Card("adj") * Card("target") * Card("path")
                     ELSE Card("coord") * Card("adj") * Card("path")
PredictedFull == PredictedSeq("AOTP") + PredictedSeq("AOP")
PredictedScope(scope) == IF scope = "full" THEN PredictedFull ELSE PredictedSeq(scope)

(* legacy equivalence: the images of the three legacy modes *)
DefaultAdj  == [cls |-> "AdjListCoord", pre |-> FALSE, post |-> TRUE, shuffle_d0 |-> TRUE,
                edge_grouping |-> [cls |-> "Ungrouped", connection_token_ordinal |-> 1],
                edge_subset |-> [cls |-> "ConnectionEdges", walls |-> FALSE], edge_permuter |-> [cls |-> "RandomCoords"]]
DefaultPath == [cls |-> "StepSequence", step_size |-> [cls |-> "Singles"], step_tokenizers |-> <<[cls |-> "Coord"]>>,
                pre |-> FALSE, intra |-> FALSE, post |-> FALSE]
LegacyTok(c) == [cls |-> "MazeTokenizerModular",
                 prompt_sequencer |-> [cls |-> "AOTP", coord_tokenizer |-> c, adj_list_tokenizer |-> DefaultAdj,
                                       target_tokenizer |-> [cls |-> "Unlabeled", post |-> FALSE], path_tokenizer |-> DefaultPath]]
LegacyModes == {"AOTP_UT_rasterized", "AOTP_UT_uniform", "AOTP_CTT_indexed"}
LegacyMap(mode) == IF mode = "AOTP_CTT_indexed" THEN LegacyTok([cls |-> "CTT", pre |-> TRUE, intra |-> TRUE, post |-> TRUE])
                   ELSE LegacyTok([cls |-> "UT"])
LegacyEquivalent == {LegacyMap(m) : m \in LegacyModes}

--------------------------------------------------------------------------
(* design-level checks *)
\* the first "(" closes only at the last token: the depth after every proper prefix that contains it is >= 1
RECURSIVE Nested(_, _, _)
Nested(toks, i, d) ==
  IF i > Len(toks) THEN d = 0
  ELSE LET d2 == IF toks[i] = "(" THEN d + 1 ELSE IF toks[i] = ")" THEN d - 1 ELSE d
       IN ((i >= 2 /\ i < Len(toks)) => d2 >= 1) /\ Nested(toks, i + 1, d2)
WellNestedToks(toks) == /\ Len(toks) >= 3 /\ toks[1] \notin {"(", ")", ", "} /\ toks[2] = "(" /\ toks[Len(toks)] = ")"
                        /\ Nested(toks, 1, 0)

ExpectedCard(K) == CASE K = "coord" -> 9 [] K = "grouping" -> 3 [] K = "permuter" -> 3 [] K = "subset" -> 3 [] K = "adj" -> 216
                     [] K = "target" -> 2 [] K = "stepsize" -> 2 [] K = "steptok" -> 4 [] K = "path" -> 1008
ExpectedRawCard(K) == CASE K = "coord" -> 9 [] K = "grouping" -> 11 [] K = "permuter" -> 3 [] K = "subset" -> 3 [] K = "adj" -> 1584
                     [] K = "target" -> 2 [] K = "stepsize" -> 4 [] K = "steptok" -> 4 [] K = "path" -> 10880

VARIABLE fam
Init == fam \in Families
Next == UNCHANGED fam
DSpec == Init /\ [][Next]_fam

CardInv      == /\ Card(fam) = ExpectedCard(fam) /\ Cardinality(RawOf(fam)) = ExpectedRawCard(fam) /\ SpaceOf(fam) \subseteq RawOf(fam)
                /\ \A c \in RawOf(fam) : InSpace(fam, c) <=> c \in SpaceOf(fam)
NameInjective == /\ Cardinality(NamesOf(fam)) = Card(fam)
                 /\ Cardinality({NameOf(fam, c) : c \in RawOf(fam)}) = Cardinality(RawOf(fam))     \* also over the raw space
WellNested   == \A c \in RawOf(fam) : WellNestedToks(ToksOf(fam, c))
StepTupleInv == Cardinality(StepTuple) = 63 /\ Cardinality(StepTupleRaw) = 340
ProductInv   == /\ PredictedSeq("AOTP") = 3919104 /\ PredictedSeq("AOP") = 1959552 /\ PredictedFull = 5878656
                /\ PredictedFull = 9 * 216 * 2 * 1008 + 9 * 216 * 1008
\* the piecewise composition agrees with the token grammar (all coord x target, a slice of adj and path, both shapes)
SomeAdj  == {a \in Adj : a.edge_subset.cls = "AllLatticeEdges" /\ a.edge_permuter.cls = "BothCoords" /\ a.shuffle_d0 /\ ~a.post}
SomePath == {p \in Path : p.pre /\ p.post /\ p.intra /\ p.step_size.cls = "Forks" /\ Len(p.step_tokenizers) # 3}
ComposeInv == (fam = "coord") =>
  \A c \in Coord, t \in Target, a \in SomeAdj, p \in SomePath :
    /\ TokName([cls |-> "MazeTokenizerModular", prompt_sequencer |-> [cls |-> "AOTP", coord_tokenizer |-> c, adj_list_tokenizer |-> a, target_tokenizer |-> t, path_tokenizer |-> p]])
         = Compose("AOTP", <<NameOf("coord", c), NameOf("adj", a), NameOf("target", t), NameOf("path", p)>>)
    /\ TokName([cls |-> "MazeTokenizerModular", prompt_sequencer |-> [cls |-> "AOP", coord_tokenizer |-> c, adj_list_tokenizer |-> a, path_tokenizer |-> p]])
         = Compose("AOP", <<NameOf("coord", c), NameOf("adj", a), NameOf("path", p)>>)
LegacyInv == /\ Cardinality(LegacyEquivalent) = 2
             /\ \A t \in LegacyEquivalent : IsTokRaw(t) /\ TokValid(t)
             /\ TokName(LegacyMap("AOTP_UT_uniform")) =
                  "MazeTokenizerModular-AOTP(UT(), AdjListCoord(pre=F, post=T, shuffle_d0=T, Ungrouped(connection_token_ordinal=1), ConnectionEdges(walls=F), RandomCoords()), Unlabeled(post=F), StepSequence(Singles(), step_tokenizers=(Coord(), ), pre=F, intra=F, post=F))"

(* emission for the driver *)
EmitFamilies == <<"coord", "adj", "target", "path">>
ASSUME ("VERIF_EMIT" \in DOMAIN IOEnv) =>
  ndJsonSerialize(IOEnv.VERIF_EMIT,
    [i \in 1..Len(EmitFamilies) |-> [K |-> EmitFamilies[i], names |-> SetToSeq(NamesOf(EmitFamilies[i])), seqs |-> <<>>, pieces |-> <<>>]]
    \o <<[K |-> "fmt", names |-> <<>>,
          seqs |-> <<[cls |-> "AOTP", parts |-> SeqParts("AOTP")], [cls |-> "AOP", parts |-> SeqParts("AOP")]>>,
          pieces |-> <<"MazeTokenizerModular" \o "-", "(", ", ", ")">>]>>)
=============================================================================
