CONSTANTS Shapes <- ShapesTiny
  PKinds <- PAll
SPECIFICATION Spec
INVARIANT InGridWhenDone
INVARIANT Extremes
INVARIANT MetaTruth
CHECK_DEADLOCK FALSE
