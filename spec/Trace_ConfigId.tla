-------------------------- MODULE Trace_ConfigId --------------------------
(* Use (C) for C18: observations of the real MazeDatasetConfig are judged against ConfigId.tla.
   One ndjson record per observation; r.kind selects the clause group.  Python values are logged as
   typed trees {t: <type name>, v: <payload>} (see ConfigId.tla); a "raw config" is
       {name, grid_n, n_mazes, seed, slmin, slmax : scalars read from the object,
        ctor : maze_ctor.__name__,  ck / ek / af : trees of maze_ctor_kwargs / endpoint_kwargs / applied_filters}.
   Hashes are decimal STRINGS (they exceed 32 bits) and are only compared for (in)equality; hd is the
   same number as a list of 1-character digit strings (TLC cannot index strings).

   every record: res ("ok" | "raise:<exception class>@<stage>"), bad (names of values whose Python type was
   not the expected scalar type; non-empty => clause wrong_type), d (the requested config, for replay).
   kind = "cfg"   {res, o, hash, hd, hneg, hmod, fname, h2, h3, f3, o_kept}
                  one config: stable_hash_cfg(), to_fname(); h2 = hash asked a second time, h3 / f3 =
                  hash / file name of an independently constructed equal config; o_kept = the raw content of
                  the object after these calls is what it was before them
   kind = "rt"    {res, path, o, b, same_fn, lib_eq, ho, hb, fo, fb, ser, o_kept, arg_kept}
                  o = raw content of the config read BEFORE serialize() (deep snapshot);
                  b = load(serialize(o)) (path "direct") or load(json.loads(json.dumps(serialize(o))))
                  (path "json"); same_fn = (b.maze_ctor is o.maze_ctor); lib_eq = the library's == on the live objects;
                  ho/hb, fo/fb = hash and file name before / after; ser = the JSON-loaded serialized tree (snapshot
                  taken before load); o_kept = the original's raw content after serialize + load is still o;
                  arg_kept = the object passed to load is unchanged by load
   kind = "line"  {res, field, cfgs, hashes}    configs (as requested by the driver) that differ pairwise
                  in exactly the one field `field`, and their hashes
   kind = "fam"   {res, cfgs, hashes}           a family of configs, all pairs judged
   kind = "proc"  {res, o, hash, fname, obs}    obs = [{env, res, hash, fname}]: the same config built in
                  separate interpreter processes (PYTHONHASHSEED = env)
   kind = "coll"  {res, name, om, bm, bname, lib_eq, hash, hd, hneg, hmod, fname, h3, hb}
                  a MazeDatasetCollectionConfig: om / bm = raw member configs before / after the JSON round
                  trip, bname = name after it, h3 = hash of an independently built twin, hb = hash after
   kind = "cline" {res, colls, hashes}          collections [{name, members}] (as requested), all pairs judged
   kind = "edit"  {res, via, field, before, after, fresh, reload, h0, f0, h1, f1, hf, ff, hl, fl, leq}
                  a HISTORY on one config object: build -> hash/fname (h0, f0; raw content `before`) -> edit in
                  place (via = setattr | item | append | lib:<operation>; field = the edited field, "*" when the
                  library chose) -> hash/fname again (h1, f1; raw content `after`); fresh / hf / ff = raw content,
                  hash, file name of a FRESHLY constructed config holding the edited content; reload / hl / fl /
                  leq = load(json(serialize(edited object))), its hash, file name, and the library's ==
                  via = deepcopy | replace | reload (+ ":setattr"): the edit is made on a COPY of the hashed object
                  (copy.deepcopy / dataclasses.replace / load(json(serialize))); these records also carry
                  orig_kept / h0b = the original's raw content is unchanged / its hash asked again afterwards
   kind = "cedit" the same history on a MazeDatasetCollectionConfig; before / after / fresh / reload = {name, members}
   res fields: "ok" | "raise:<exception class>@<stage>".

   Layer P (the statement): no exception; every field of the reloaded config equals the original
   (type-exact: coordinate lists are lists of tuples, filter args are tuples), same generator
   function, the library's == agrees, identity and file name unchanged by the round trip; identity
   repeatable, equal in every process, different for configs that differ in one listed field (and for
   every pair of distinct configs of a family); file name = the documented format assembled HERE from
   the logged pieces.
   Histories: after an in-place edit the identity follows the CURRENT content (ConfigId!HashFollowsInv):
   it differs from the identity before the edit, equals the identity of a fresh config with the same
   content, and the reloaded copy is equal and has the same hash and file name.
   Collections: members survive the round trip, identity repeatable / stable / different for different
   collections (Layer P); their file name "collected-<name>-n<short(total count)>-h<hash mod 10^5>" is
   NOT fixed by the statement (no single grid size / generator) -> Layer M.
   Layer M ("M:"): the JSON-loaded serialized tree equals ConfigId!SerTree on the modelled keys, and
   ConfigId!Load of it equals the reloaded config.
   "H:" clauses are harness guards (a record outside the scope WF / a malformed line / a "fresh equal config" that is
   not equal); the driver checks what it can before logging, so they do not fire on a sound harness and sound code.
   A guard never decides a Layer-P clause: every Layer-P clause is evaluated only on the part of a record that the
   guards vouch for (see EditJudge / LineClauses / RtClauses), so a reported Layer-P clause stands on its own and the
   driver may report it (exit 1) even when guards fired in the same run; guards ALONE are a machinery error (exit 2). *)
EXTENDS ConfigId, Json, IOUtils, SequencesExt
Log == ndJsonDeserialize(IOEnv.VERIF_LOG)

Flag(ok, name) == IF ok THEN {} ELSE {name}

ModelKeys == {"name", "seed", "applied_filters", "grid_n", "n_mazes", "maze_ctor_kwargs", "endpoint_kwargs"}
SerMatchesModel(ser, o) ==
  LET m == SerTree(o) IN
  /\ ser.t = "dict"
  /\ \A key \in ModelKeys : HasKey(ser, key) /\ TreeEq(Get(ser, key), Get(m, key))
  /\ HasKey(ser, "maze_ctor") /\ Get(ser, "maze_ctor").t = "dict" /\ HasKey(Get(ser, "maze_ctor"), "__name__")
  /\ TreeEq(Get(Get(ser, "maze_ctor"), "__name__"), S(o.ctor))

CoordsAreTuples(ek) == ek.t = "dict" /\ \A k \in 1..Len(ek.v) :
                          LET v == ek.v[k][2] IN v.t \in {"bool", "NoneType"} \/ IsCoordList(v)
ArgsAreTuples(af) == af.t = "list" /\ \A k \in 1..Len(af.v) :
                          LET f == af.v[k] IN f.t = "dict" /\ HasKey(f, "args") /\ Get(f, "args").t = "tuple"

\* o = raw content read off the config BEFORE serialize / load were called (a deep snapshot), b = the loaded config.
\* The Layer-P clauses compare b with o directly and do not need the scope predicate; only the model part (SerTree / Load)
\* does -> a config outside WF loses its Layer-M comparison (guard H:not_in_scope), never its Layer-P verdict.
RtClauses(r) ==
  LET o == r.o  b == r.b IN
     Flag(b.name = o.name, "name_changed")
     \cup Flag(b.grid_n = o.grid_n, "grid_n_changed")
     \cup Flag(b.n_mazes = o.n_mazes, "n_mazes_changed")
     \cup Flag(b.seed = o.seed, "seed_changed")
     \cup Flag(b.slmin = o.slmin /\ b.slmax = o.slmax, "seq_len_changed")
     \cup Flag(b.ctor = o.ctor /\ r.same_fn, "generator_changed")
     \cup Flag(TreeEq(b.ck, o.ck), "generator_kwargs_changed")
     \cup Flag(TreeEq(b.ek, o.ek), "endpoint_kwargs_changed")
     \cup Flag(CoordsAreTuples(b.ek), "coords_not_tuples")
     \cup Flag(TreeEq(b.af, o.af), "filters_changed")
     \cup Flag(ArgsAreTuples(b.af), "filter_args_not_tuple")
     \cup Flag(r.lib_eq, "not_equal_by_library")
     \cup Flag(r.hb = r.ho, "hash_changed_by_round_trip")
     \cup Flag(r.fb = r.fo, "fname_changed_by_round_trip")
     \* the statement is silent about serialize / load leaving their operands alone (what it does promise -- an EQUAL loaded
     \* config -- is judged above against the snapshot and through the library's == against the live object): Layer M
     \cup Flag(r.o_kept, "M:original_modified_by_round_trip")
     \cup Flag(r.arg_kept, "M:load_modified_its_argument")
     \cup (IF ~WF(o) THEN {"H:not_in_scope"}
           ELSE IF SerMatchesModel(r.ser, o)
           THEN Flag(CfgEq(Load(r.ser), b), "M:load_differs_from_model")
           ELSE {"M:ser_differs_from_model"})

\* hd = digits of |hash|; for a negative hash the mathematical residue is meant (Python's %)
HMod(r) == IF r.hneg THEN (100000 - Last5(r.hd)) % 100000 ELSE Last5(r.hd)
CfgClauses(r) ==
  LET o == r.o IN
     Flag(r.h2 = r.hash /\ r.h3 = r.hash, "hash_not_repeatable")
     \cup Flag(r.f3 = r.fname, "fname_not_repeatable")
     \cup Flag(r.hmod = HMod(r), "H:hmod_inconsistent")
     \cup Flag(r.o_kept, "M:original_modified_by_hashing")
     \cup (IF o.ctor \notin Generators THEN {"H:unknown_generator"}
           ELSE Flag(r.fname \in Fnames(o.name, o.grid_n, o.n_mazes, o.ctor, HMod(r)), "fname_format"))

AllPairs(n, P(_, _)) == \A a \in 1..n : \A b \in (a + 1)..n : P(a, b)
\* a malformed line (harness guard) is not judged for collisions: its pairs need not differ at all
LineClauses(r) ==
  LET n == Len(r.cfgs)
      OneField(a, b) == DiffFields(r.cfgs[a], r.cfgs[b]) = {r.field}
      Distinct(a, b) == r.hashes[a] # r.hashes[b] IN
  IF ~(Len(r.hashes) = n /\ r.field \in Fields /\ AllPairs(n, OneField)) THEN {"H:line_malformed"}
  ELSE Flag(AllPairs(n, Distinct), "hash_collision:" \o r.field)

\* all pairs of a family; the common case (all hashes distinct) is decided by one set cardinality
FamClauses(r) ==
  LET n == Len(r.cfgs)
      key == [k \in 1..n |-> HashKey(r.cfgs[k])]
      Separated(a, b) == r.hashes[a] = r.hashes[b] => CfgEq(r.cfgs[a], r.cfgs[b]) IN
  Flag(Cardinality({r.hashes[k] : k \in 1..n}) = n \/ AllPairs(n, Separated), "hash_collision")
  \cup Flag(Cardinality({<<key[k], r.hashes[k]>> : k \in 1..n}) = Cardinality({key[k] : k \in 1..n}), "equal_configs_hash_differently")

RECURSIVE SumCounts(_)
SumCounts(ms) == IF Len(ms) = 0 THEN 0 ELSE ms[1].n_mazes + SumCounts(Tail(ms))
MemberSame(b, o) == /\ CfgEq(b, o) /\ b.slmin = o.slmin /\ b.slmax = o.slmax
                    /\ CoordsAreTuples(b.ek) /\ ArgsAreTuples(b.af)
CollClauses(r) ==
  Flag(Len(r.bm) = Len(r.om) /\ \A k \in 1..Len(r.om) : MemberSame(r.bm[k], r.om[k]), "member_changed")
  \cup Flag(r.bname = r.name, "name_changed")
  \cup Flag(r.lib_eq, "not_equal_by_library")
  \cup Flag(r.h3 = r.hash, "hash_not_repeatable")
  \cup Flag(r.hb = r.hash, "hash_changed_by_round_trip")
  \cup Flag(r.hmod = HMod(r), "H:hmod_inconsistent")
  \cup Flag(r.fname \in CollFnames(r.name, SumCounts(r.om), HMod(r)), "M:collection_fname_format")

CollEq(a, b) == /\ a.name = b.name /\ Len(a.members) = Len(b.members)
                /\ \A k \in 1..Len(a.members) : CfgEq(a.members[k], b.members[k])
CLineClauses(r) ==
  LET n == Len(r.colls)
      Separated(a, b) == r.hashes[a] = r.hashes[b] => CollEq(r.colls[a], r.colls[b]) IN
  Flag(Len(r.hashes) = n /\ AllPairs(n, Separated), "hash_collision:collection")

\* histories with an in-place edit; `differs` = content really changed, freshSame / reloadSame = raw content comparisons.
\* A Layer-P clause is evaluated only on the part of the record its guard vouches for: "the hash moved" needs an edit that
\* changed the content, "the hash equals the fresh config's" needs a fresh config that really holds the edited content.
\* So a guard never taints a Layer-P verdict: whatever Layer-P clause is reported stands on its own.
EditJudge(r, differs, wellFormed, freshSame, reloadSame) ==
  Flag(differs /\ wellFormed, "H:edit_malformed")
  \cup Flag(freshSame, "H:fresh_not_equal")
  \cup Flag((differs => r.h1 # r.h0) /\ (freshSame => r.h1 = r.hf), "hash_stale_after_in_place_edit")
  \cup Flag(freshSame => r.f1 = r.ff, "fname_stale_after_in_place_edit")
  \cup Flag(reloadSame /\ r.leq, "reloaded_copy_not_equal")
  \cup Flag(r.hl = r.h1 /\ r.fl = r.f1, "reloaded_copy_hashes_differently")
  \* histories that edit a COPY (deepcopy / dataclasses.replace / load(serialize)) also log the original afterwards:
  \* orig_kept = its raw content is still `before`, h0b = its hash asked again
  \cup (IF "h0b" \in DOMAIN r
        THEN Flag(r.orig_kept, "M:original_changed_by_editing_a_copy")
             \cup Flag(r.orig_kept => r.h0b = r.h0, "hash_not_repeatable")
        ELSE {})
RawSame(a, b) == CfgEq(a, b) /\ a.slmin = b.slmin /\ a.slmax = b.slmax
EditClauses(r) ==
  LET changed == DiffFields(r.before, r.after) IN
  EditJudge(r, changed # {}, r.field = "*" \/ changed = {r.field}, RawSame(r.fresh, r.after), RawSame(r.reload, r.after))
CollRawEq(a, b) == /\ a.name = b.name /\ Len(a.members) = Len(b.members)
                   /\ \A k \in 1..Len(a.members) : RawSame(a.members[k], b.members[k])
CEditClauses(r) ==
  EditJudge(r, ~CollRawEq(r.before, r.after), TRUE, CollRawEq(r.fresh, r.after), CollRawEq(r.reload, r.after))

ProcClauses(r) ==
  Flag(\A k \in 1..Len(r.obs) : r.obs[k].res = "ok", "unexpected_exception")
  \cup Flag(Len(r.obs) >= 2, "H:too_few_processes")
  \cup Flag(\A k \in 1..Len(r.obs) : r.obs[k].res = "ok" => r.obs[k].hash = r.hash, "hash_differs_across_processes")
  \cup Flag(\A k \in 1..Len(r.obs) : r.obs[k].res = "ok" => r.obs[k].fname = r.fname, "fname_differs_across_processes")

Clauses(r) ==
  IF r.res # "ok" THEN {"unexpected_exception"}
  ELSE IF Len(r.bad) > 0 THEN {"wrong_type"}
  ELSE CASE r.kind = "rt"   -> RtClauses(r)
         [] r.kind = "cfg"  -> CfgClauses(r)
         [] r.kind = "line" -> LineClauses(r)
         [] r.kind = "fam"  -> FamClauses(r)
         [] r.kind = "proc" -> ProcClauses(r)
         [] r.kind = "coll" -> CollClauses(r)
         [] r.kind = "cline" -> CLineClauses(r)
         [] r.kind = "edit" -> EditClauses(r)
         [] r.kind = "cedit" -> CEditClauses(r)
         [] OTHER           -> {"H:unknown_kind"}

VARIABLES l, bad
Init == l = 1 /\ bad = {} /\ i1 = 0 /\ i2 = 0 /\ hs = 0
Next == /\ l <= Len(Log) /\ l' = l + 1 /\ UNCHANGED <<i1, i2, hs>>
        /\ bad' = bad \cup (LET cs == Clauses(Log[l]) IN IF cs = {} THEN {} ELSE {[id |-> Log[l].id, c |-> cs]})
Spec == Init /\ [][Next]_<<l, bad, i1, i2, hs>>
Done == (l = Len(Log) + 1) =>
          ndJsonSerialize(IOEnv.VERIF_OUT, <<[id |-> -1, c |-> {ToString(Len(Log))}]>> \o SetToSeq(bad))
=============================================================================
