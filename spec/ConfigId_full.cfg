CONSTANTS Full = TRUE
          Variant = "ok"
SPECIFICATION DSpec
INVARIANT WFInv
INVARIANT LoweredInv
INVARIANT RoundTripInv
INVARIANT OneFieldInv
INVARIANT IdentityInv
INVARIANT StableInv
CHECK_DEADLOCK FALSE
