---------------------------- MODULE MazeValue ----------------------------
(* C09 -- maze objects are VALUES.

   A maze (observed or described) is a record
       [kind, conn, start, end, sol]  (+ meta, rep in scope descriptions)
     kind  \in Kinds
     conn  raw 2 x R x C array of 0/1 (layout of Lattice.tla)
     start, end   <<>> (absent: LatticeMaze) or <<r, c>>
     sol   <<>> (absent) or a sequence of <<r, c>>
     meta  small integer naming a generation_meta dictionary       -- NOT part of the value
     rep   string naming HOW the Python object is built (same object / copy / dtype of the arrays /
           list vs tuple vs array / non-contiguous view)           -- NOT part of the value

   Value semantics:   Val(m) = <<kind, conn, start, end, sol>>,  Eq(a, b) == Val(a) = Val(b),
   Ne == ~Eq,  a hash function h is acceptable iff Eq(a, b) => h(a) = h(b)  (collisions are free),
   Construct(kind, conn, start, end) is rejected with ValueError iff an endpoint is outside the grid.
   Dataset equality = configuration equality /\ equal length /\ pointwise Eq.

   The module also DEFINES THE SMALL SCOPE of the check (pair cases, constructor cases, dataset cases)
   and, when VERIF_EMIT is set, TLC writes that scope as ndjson: the harness builds exactly these
   objects.  TLC model-checks the scope itself: every case is a state; the invariants say that the
   scope's own labels agree with Eq (each "one change" variant really is a different value, each
   representation variant really is the same value), that every described maze is constructible,
   and that the chosen model hash satisfies HashOK (HashVariant = "rep_dependent" must FAIL). *)
EXTENDS Lattice, TLC, Json, IOUtils, SequencesExt

CONSTANTS Shapes,        \* shapes <<R, C>> of the left operand a (and of constructor / dataset cases)
          OtherShapes,   \* shapes used for the "shape" variants of b
          HashVariant,   \* "conn" | "conn_sol" | "value" | "rep_dependent"
          Parts          \* subset of {"pairs", "ctor", "ds"}: which parts of the scope this run covers

\* named scopes for the model configs (cfg files cannot contain tuples)
ScopeTiny  == {<<1,1>>, <<1,2>>, <<2,1>>}
ScopeSmall == {<<1,1>>, <<1,2>>, <<2,1>>, <<1,3>>, <<3,1>>, <<2,2>>}
Scope2x3   == {<<2,3>>}
Scope3x2   == {<<3,2>>}
Scope23    == {<<2,3>>, <<3,2>>}
\* includes every shape with as many bytes as a scope shape: 1x2/2x1, 1x3/3x1, 2x2/1x4/4x1, 2x3/3x2/1x6/6x1
ScopeOther == ScopeSmall \cup {<<2,3>>, <<3,2>>, <<1,4>>, <<4,1>>, <<1,6>>, <<6,1>>, <<3,3>>}

--------------------------------------------------------------------------
(* value semantics *)
Kinds == {"LatticeMaze", "TargetedLatticeMaze", "SolvedMaze"}
RowsOf(m) == Len(m.conn[1])
ColsOf(m) == Len(m.conn[1][1])
Val(m) == <<m.kind, m.conn, m.start, m.end, m.sol>>
Eq(a, b) == Val(a) = Val(b)
Ne(a, b) == ~Eq(a, b)

\* a targeted / solved maze never holds an endpoint outside its grid
EndsInGrid(m) ==
  \/ m.kind = "LatticeMaze"
  \/ /\ Len(m.start) = 2 /\ Len(m.end) = 2
     /\ InGridCell(RowsOf(m), ColsOf(m), m.start)
     /\ InGridCell(RowsOf(m), ColsOf(m), m.end)

\* what the three constructors can produce at all
WellFormed(m) ==
  /\ m.kind \in Kinds
  /\ WellShaped(RowsOf(m), ColsOf(m), m.conn)
  /\ EndsInGrid(m)
  /\ (m.kind = "LatticeMaze") => (m.start = <<>> /\ m.end = <<>>)
  /\ IF m.kind = "SolvedMaze"
     THEN Len(m.sol) >= 1 /\ Cell(m.sol[1]) = Cell(m.start) /\ Cell(m.sol[Len(m.sol)]) = Cell(m.end)
     ELSE m.sol = <<>>

ConstructOutcome(R, C, s, e) ==
  IF InGridCell(R, C, s) /\ InGridCell(R, C, e) THEN "ok" ELSE "raise:ValueError"

\* dataset equality = configuration equality /\ equal maze lists (pointwise Eq)
SeqEq(ma, mb) == Len(ma) = Len(mb) /\ \A k \in 1..Len(ma) : Eq(ma[k], mb[k])
DsEq(cfgEq, ma, mb) == cfgEq /\ SeqEq(ma, mb)

\* de-duplication through a set / dict: the kept elements are the first occurrences of each value
FirstOccurrences(ms) == {i \in 1..Len(ms) : \A j \in 1..(i-1) : ~Eq(ms[j], ms[i])}

\* model hashes (the property allows any function of the value)
ModelHash(m) ==
  CASE HashVariant = "conn" -> <<m.conn>>
    [] HashVariant = "conn_sol" -> <<m.conn, m.sol>>
    [] HashVariant = "value" -> Val(m)
    [] HashVariant = "rep_dependent" -> <<m.conn, m.sol, m.rep>>
HashOK(a, b) == Eq(a, b) => ModelHash(a) = ModelHash(b)

--------------------------------------------------------------------------
(* the small scope *)
EnvInt(name, dflt) == IF name \in DOMAIN IOEnv THEN atoi(IOEnv[name]) ELSE dflt
NChunks == EnvInt("VERIF_NCHUNKS", 1)      \* graphs n with n % NChunks = Chunk are bases
Chunk   == EnvInt("VERIF_CHUNK", 0)

Sgn(x) == IF x > 0 THEN 1 ELSE IF x < 0 THEN 0 - 1 ELSE 0
Pow2(k) == 2 ^ k
\* same numbering of interior slots as harness/mz.py (down slots row-major, then right slots)
SlotIdx(R, C, s) == IF s[1] = 0 THEN s[2] * C + s[3] ELSE (R - 1) * C + s[2] * (C - 1) + s[3]
NGraphs(R, C) == Pow2((R - 1) * C + R * (C - 1))
ConnOfInt(R, C, n) ==
  [d \in 1..2 |-> [i \in 1..R |-> [j \in 1..C |->
     IF Interior(R, C, <<d-1, i-1, j-1>>) /\ (n \div Pow2(SlotIdx(R, C, <<d-1, i-1, j-1>>))) % 2 = 1 THEN 1 ELSE 0]]]
GraphIds(R, C) == {n \in 0..(NGraphs(R, C) - 1) : n % NChunks = Chunk % NChunks}

\* L-shaped lattice walks between two cells (solutions are not validated against conn by the code)
RowFirst(s, e) ==
  LET dr == e[1] - s[1]  dc == e[2] - s[2] IN
  [k \in 1..(AbsI(dr) + AbsI(dc) + 1) |->
     IF k - 1 <= AbsI(dr) THEN <<s[1] + Sgn(dr) * (k - 1), s[2]>>
     ELSE <<e[1], s[2] + Sgn(dc) * (k - 1 - AbsI(dr))>>]
ColFirst(s, e) ==
  LET dr == e[1] - s[1]  dc == e[2] - s[2] IN
  [k \in 1..(AbsI(dr) + AbsI(dc) + 1) |->
     IF k - 1 <= AbsI(dc) THEN <<s[1], s[2] + Sgn(dc) * (k - 1)>>
     ELSE <<s[1] + Sgn(dr) * (k - 1 - AbsI(dc)), e[2]>>]
Rev(q) == [k \in 1..Len(q) |-> q[Len(q) + 1 - k]]
DropAt(q, k) == [i \in 1..(Len(q) - 1) |-> IF i < k THEN q[i] ELSE q[i + 1]]

Mk(kind, conn, s, e, sol) == [kind |-> kind, conn |-> conn, start |-> s, end |-> e, sol |-> sol, meta |-> 0, rep |-> "base"]
Solved(conn, sol) == Mk("SolvedMaze", conn, sol[1], sol[Len(sol)], sol)

Bases(R, C) ==
  UNION {LET conn == ConnOfInt(R, C, n) IN
           {Mk("LatticeMaze", conn, <<>>, <<>>, <<>>)}
           \cup {Mk("TargetedLatticeMaze", conn, s, e, <<>>) : s \in CellsOf(R, C), e \in CellsOf(R, C)}
           \cup {Solved(conn, RowFirst(s, e)) : s \in CellsOf(R, C), e \in CellsOf(R, C)}
         : n \in GraphIds(R, C)}

\* ---- variants b of a base a; rel names the relation, EqualRels are the ones that must compare equal
EqualRels == {"same", "copy", "meta", "rep"}
V(rel, m, rep) == [rel |-> rel, m |-> [m EXCEPT !.rep = rep]]

RepsOf(a) ==
  {"conn_view", "conn_fortran"}
  \cup (IF a.kind = "TargetedLatticeMaze" THEN {"ends_int8", "ends_list", "ends_tuple", "ends_int32"} ELSE {})
  \cup (IF a.kind = "SolvedMaze" THEN {"sol_int8", "sol_int32", "sol_list", "sol_tuples", "sol_explicit_ends"} ELSE {})

Flip(conn, s) == [conn EXCEPT ![s[1]+1][s[2]+1][s[3]+1] = 1 - @]

\* same bytes poured into another shape (zero-padded / truncated); endpoints clipped into the grid
Flat(conn, R, C, idx) ==
  LET d == (idx - 1) \div (R * C)  rem == (idx - 1) % (R * C) IN conn[d + 1][(rem \div C) + 1][(rem % C) + 1]
Reflow(conn, R, C, R2, C2) ==
  [d \in 1..2 |-> [i \in 1..R2 |-> [j \in 1..C2 |->
     LET idx == ((d - 1) * R2 + (i - 1)) * C2 + j IN IF idx <= 2 * R * C THEN Flat(conn, R, C, idx) ELSE 0]]]
Clip(c, R2, C2) == IF c = <<>> THEN <<>> ELSE <<MinI(c[1], R2 - 1), MinI(c[2], C2 - 1)>>
Reshaped(a, R, C, sh) ==
  [a EXCEPT !.conn = Reflow(a.conn, R, C, sh[1], sh[2]),
            !.start = Clip(a.start, sh[1], sh[2]),
            !.end = Clip(a.end, sh[1], sh[2]),
            !.sol = [k \in 1..Len(a.sol) |-> Clip(a.sol[k], sh[1], sh[2])]]

Variants(a) ==
  LET R == RowsOf(a)  C == ColsOf(a)  cells == CellsOf(R, C)  n == Len(a.sol) IN
  \* ---------------- equal values
  {V("same", a, "same"), V("copy", a, "copy"),
   V("meta", [a EXCEPT !.meta = 1], "copy"), V("meta", [a EXCEPT !.meta = 2], "copy")}
  \cup {V("rep", a, rp) : rp \in RepsOf(a)}
  \* ---------------- different values
  \cup {V("bit", [a EXCEPT !.conn = Flip(a.conn, s)], "copy") : s \in Slots(R, C)}
  \cup {V("shape", Reshaped(a, R, C, sh), "copy") : sh \in OtherShapes \ {<<R, C>>}}
  \cup (IF a.kind = "LatticeMaze" THEN
          {V("kind", Mk("TargetedLatticeMaze", a.conn, <<0, 0>>, <<0, 0>>, <<>>), "copy"),
           V("kind", Solved(a.conn, << <<0, 0>> >>), "copy")}
        ELSE IF a.kind = "TargetedLatticeMaze" THEN
          {V("start", [a EXCEPT !.start = c], "copy") : c \in cells \ {a.start}}
          \cup {V("end", [a EXCEPT !.end = c], "copy") : c \in cells \ {a.end}}
          \cup (IF a.start # a.end THEN {V("swap", [a EXCEPT !.start = a.end, !.end = a.start], "copy")} ELSE {})
          \cup {V("kind", Mk("LatticeMaze", a.conn, <<>>, <<>>, <<>>), "copy"),
                V("kind", Solved(a.conn, RowFirst(a.start, a.end)), "copy")}
        ELSE
          ({V("solcell", Solved(a.conn, [a.sol EXCEPT ![k] = c]), "copy") : k \in 1..n, c \in cells} \ {V("solcell", a, "copy")})
          \cup {V("longer", Solved(a.conn, Append(a.sol, c)), "copy") : c \in cells}
          \cup {V("longer", Solved(a.conn, <<c>> \o a.sol), "copy") : c \in cells}
          \cup (IF n > 1 THEN {V("shorter", Solved(a.conn, DropAt(a.sol, k)), "copy") : k \in 1..n} ELSE {})
          \cup (IF ColFirst(a.start, a.end) # a.sol THEN {V("route", Solved(a.conn, ColFirst(a.start, a.end)), "copy")} ELSE {})
          \cup (IF a.start # a.end THEN {V("reversed", Solved(a.conn, Rev(a.sol)), "copy")} ELSE {})
          \cup {V("kind", Mk("LatticeMaze", a.conn, <<>>, <<>>, <<>>), "copy"),
                V("kind", Mk("TargetedLatticeMaze", a.conn, a.start, a.end, <<>>), "copy")})

\* comparisons with objects that are not mazes: never raise, never equal
Foreigns == {"None", "int", "tuple", "str", "list"}

\* one group per base: the base, all its variants, and the foreign right operands
Groups(SS) == {[t |-> "pairs", a |-> a, vs |-> SetToSeq(Variants(a)), foreign |-> SetToSeq(Foreigns)] : a \in UNION {Bases(sh[1], sh[2]) : sh \in SS}}

\* ---- constructor scope: every endpoint pair over -2..R+1 x -2..C+1 for both kinds and every call form
Ext(R, C) == ((0 - 2)..(R + 1)) \X ((0 - 2)..(C + 1))
FormsOf(kind) == IF kind = "TargetedLatticeMaze" THEN {"array", "tuple", "int8", "from_lattice_maze"}
                 ELSE {"walk", "pair", "walk_explicit_ends", "from_lattice_maze"}
CtorCases(SS) ==
  UNION {LET R == sh[1]  C == sh[2] IN
         {[t |-> "ctor", kind |-> k, R |-> R, C |-> C, start |-> s, end |-> e, forms |-> SetToSeq(FormsOf(k))]
            : k \in {"TargetedLatticeMaze", "SolvedMaze"}, s \in Ext(R, C), e \in Ext(R, C)}
         : sh \in SS}

\* ---- dataset scope: lists of length <= 2 over a pool of four mazes x configuration variants
DsPool(R, C) ==
  LET conn == ConnOfInt(R, C, NGraphs(R, C) - 1)
      m0 == Solved(conn, RowFirst(<<0, 0>>, <<R - 1, C - 1>>)) IN
  << m0, [m0 EXCEPT !.meta = 1, !.rep = "sol_int8"], [m0 EXCEPT !.conn = Flip(m0.conn, <<0, 0, 0>>)],
     Solved(conn, RowFirst(<<R - 1, C - 1>>, <<0, 0>>)) >>
DsLists == {<<>>} \cup {<<i>> : i \in 1..4} \cup {<<i, j>> : i \in 1..4, j \in 1..4} \cup {<<1, 2, 3>>, <<2, 1, 3>>, <<1, 2, 4>>}
CfgVariants == {"same", "copy", "name", "grid_n", "seed", "ctor", "n_mazes"}
DsCases(SS) ==
  {[t |-> "ds", R |-> sh[1], C |-> sh[2], pool |-> DsPool(sh[1], sh[2]), la |-> la, lb |-> lb, cfgs |-> SetToSeq(CfgVariants)]
     : sh \in {s \in SS : s[1] * s[2] > 1}, la \in DsLists, lb \in DsLists}

--------------------------------------------------------------------------
(* emission of the scope (one source of truth for the harness).  The scope operators take the shape
   set as a parameter on purpose: TLC pre-evaluates zero-arity constant definitions very slowly. *)
EmitTo(part) == IOEnv.VERIF_EMIT \o "_" \o part \o ".ndjson"
ASSUME ("VERIF_EMIT" \in DOMAIN IOEnv) =>
  /\ ("pairs" \in Parts) => ndJsonSerialize(EmitTo("pairs"), SetToSeq(Groups(Shapes)))
  /\ ("ctor" \in Parts) => ndJsonSerialize(EmitTo("ctor"), SetToSeq(CtorCases(Shapes)))
  /\ ("ds" \in Parts) => ndJsonSerialize(EmitTo("ds"), SetToSeq(DsCases(Shapes)))

--------------------------------------------------------------------------
(* model checking the scope: every case is one state *)
VARIABLE cs
Init ==
  \/ "pairs" \in Parts /\ \E g \in Groups(Shapes) : \E k \in 1..Len(g.vs) : cs = [t |-> "pair", a |-> g.a, rel |-> g.vs[k].rel, b |-> g.vs[k].m]
  \/ "ctor" \in Parts /\ \E c \in CtorCases(Shapes) : cs = c
  \/ "ds" \in Parts /\ \E d \in DsCases(Shapes) : cs = d
Next == UNCHANGED cs
Spec == Init /\ [][Next]_cs

\* the scope's labels agree with the value semantics
LabelSound == (cs.t = "pair") => ((cs.rel \in EqualRels) <=> Eq(cs.a, cs.b))
\* every maze the harness is asked to build is constructible
ScopeWellFormed == (cs.t = "pair") => (WellFormed(cs.a) /\ WellFormed(cs.b))
\* Eq is symmetric and blind to meta / rep; Ne is its negation
EqLaws == (cs.t = "pair") =>
  /\ Eq(cs.a, cs.a) /\ Eq(cs.b, cs.b)
  /\ Eq(cs.a, cs.b) = Eq(cs.b, cs.a)
  /\ Eq(cs.a, cs.b) = Eq([cs.a EXCEPT !.meta = 7, !.rep = "x"], cs.b)
  /\ Ne(cs.a, cs.b) = ~Eq(cs.a, cs.b)
\* a value hash is consistent; a representation-dependent one is not
HashConsistent == (cs.t = "pair") => HashOK(cs.a, cs.b)
\* constructor: accepted exactly when the result would be well formed
CtorSound == (cs.t = "ctor") =>
  ((ConstructOutcome(cs.R, cs.C, cs.start, cs.end) = "ok")
     <=> (InGridCell(cs.R, cs.C, cs.start) /\ InGridCell(cs.R, cs.C, cs.end)))
\* dataset equality is reflexive and implies equal lengths
DsSound == (cs.t = "ds") =>
  LET ma == [k \in 1..Len(cs.la) |-> cs.pool[cs.la[k]]]  mb == [k \in 1..Len(cs.lb) |-> cs.pool[cs.lb[k]]] IN
  /\ SeqEq(ma, ma)
  /\ SeqEq(ma, mb) => Len(cs.la) = Len(cs.lb)
  /\ SeqEq(ma, mb) = SeqEq(mb, ma)
  /\ (cs.la = cs.lb) => SeqEq(ma, mb)
=========================================================================
