\* C07 design check on the oblong shapes 2x3 and 3x2: all spanning trees x {plain, solved with every cell
\* sequence of length <= 2} x {UT, CTT} x every admissible emission (5! orders x 2^5 orientations)
SPECIFICATION Spec
CONSTANTS
  Shapes <- ShapesL2
  CoordKinds <- BothCoordKinds
  MaxSol = 1
  TreesOnly = TRUE
  WhichKinds <- PlainAndSolved
  BrokenLimit = FALSE
INVARIANTS RoundTrip RoundTripIff InEmitExact EquivExact
CHECK_DEADLOCK FALSE
