\* C07 design check on the oblong shapes 2x3 and 3x2: all spanning trees, plain mazes, UT style,
\* every admissible emission (5! orders x 2^5 orientations = 3840 per tree)
SPECIFICATION Spec
CONSTANTS
  Shapes <- ShapesL2
  CoordKinds <- UTOnly
  MaxSol = 1
  TreesOnly = TRUE
  WhichKinds <- PlainOnly
  BrokenLimit = FALSE
INVARIANTS RoundTrip RoundTripIff SquareInference InEmitExact EquivExact
CHECK_DEADLOCK FALSE
