CONSTANTS Shapes <- ShapesSmall
SPECIFICATION Spec
INVARIANT Sound
INVARIANT Complete
INVARIANT SelfQuery
INVARIANT ClosedExact
CHECK_DEADLOCK FALSE
