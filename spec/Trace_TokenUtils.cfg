SPECIFICATION TSpec
CONSTANTS
  Machines = {}
  LexAlphabet = {}
  FullLex = 0
  MaxLex = 0
  SplitAlphabet = {}
  MaxSplit = 0
  MaxTB = 0
  FPCoord = "UT"
  Broken = "none"
INVARIANT Done
CHECK_DEADLOCK FALSE
