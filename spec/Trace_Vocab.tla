---------------------------- MODULE Trace_Vocab ----------------------------
(* Use (C) for C14: observations of the real vocabularies / codecs are judged against Vocab.tla.
   One ndjson record per observation; r.kind selects the clause group.

   kind = "pos"     {pos, tok, idx}          VOCAB_LIST[pos] = tok, VOCAB_TOKEN_TO_INDEX[tok] = idx (-1 = absent)
   kind = "vocab"   {list, t2i}              the whole VOCAB_LIST and the items of VOCAB_TOKEN_TO_INDEX ([tok, id] pairs)
   kind = "cf"      {m, res, lists}          lists[k] = corner_first_ndindex(k) for k = 1..m (cells as [i, j])
   kind = "legacy"  {mode, n, res, arr, map, encs, decs}
                                             MazeTokenizer(mode, max_grid_size = n): token_arr, items of tokenizer_map,
                                             encs = [{toks, res, ids, back_res, back}]  encode(toks), decode(encode(toks))
                                             decs = [{ids, res, toks, back_res, back}]  decode(ids), encode(decode(ids))
   kind = "legacy_prefix" {mode, m, res, arrs}  arrs[k] = token_arr for max_grid_size k = 1..m (corner-first mode)
   kind = "enc"     {toks, res, ids, sres, sids, back_res, back}
                                             MazeTokenizerModular.encode(list), encode(" ".join(list)) (sres = "skip"
                                             when not applicable), decode(encode(list))
   kind = "dec"     {ids, res, toks, jres, joined, back_res, back}
                                             MazeTokenizerModular.decode(ids), decode(ids, joined_tokens=True),
                                             encode(decode(ids))
   res fields: "ok" | "raise:<exception class name>".

   Second audit (input / history classes C-H), fields added:
     enc / dec / legacy : layer = "P" | "M".  "M" marks an input OUTSIDE the statement's quantifier (a
                          one-shot iterator or a numpy string array handed to encode, max_grid_size = 0):
                          every clause of such a record is reported with the "M:" prefix.
     enc / dec, legacy encs / decs : argmod = the call changed the caller's own argument object
                          (M:argument_modified -- the statement speaks about the returned ids / tokens;
                          the CONSEQUENCES are Layer P: the driver overwrites its argument in place
                          before it reads the result, so a result that shares memory with the argument
                          fails encode_wrong_id / decode_wrong_token).
     legacy encs: sres, sids = encode(" ".join(toks)) ("skip" = not run);
     legacy decs: jres, joined = decode(ids, joined_tokens=True) ("skip" = not run).
     vocab / legacy     : vsize (vocab_size), ntok (n_tokens, legacy only), pad (padding_token_index);
                          -1 = not observed.  Derived values, not named by the statement: Layer M.
     kind = "cf0" {res, list}  corner_first_ndindex(0) (n = 0 is outside 1..50: Layer M, must be empty).

   Layer P (the statement): published layout position by position, no duplicates, map = inverse of
   list, codecs mutually inverse and TokenError on unknown token / id, corner-first order and its
   prefix property, legacy: duplicate-free, map inverse, row-major order, prefix in corner-first mode,
   legacy encode/decode consistent with the tokenizer's OWN token list.
   Layer M ("M:" prefix): the exact layout of a legacy vocabulary equals the model's LegacyVocab
   (the statement does not fix where the specials sit or which CTT symbols exist).
   Interpretation: ids are the positions 0..4095; every other integer (negative ones included) is an
   unknown id.  Error behaviour of the LEGACY codecs is not part of the statement and is not judged. *)
EXTENDS Vocab, Json, IOUtils
Log == ndJsonDeserialize(IOEnv.VERIF_LOG)

Flag(ok, name) == IF ok THEN {} ELSE {name}
InV(id) == id >= 0 /\ id < VocabSize
TokAt(id) == SpecVocab[id + 1]
SpecSet == SeqRange(SpecVocab)
SpecialSet == SeqRange(Specials)

\* items = <<tok, id>> pairs of a dict; L = the token list it must invert (dict keys are distinct by construction)
MapInverts(items, L) ==
  /\ Len(items) = Len(L)
  /\ \A p \in 1..Len(items) : LET e == items[p] IN e[2] + 1 \in 1..Len(L) /\ L[e[2] + 1] = e[1]

\* " ".join(q), by halving (recursion depth log2 Len(q))
RECURSIVE JoinRange(_, _, _)
JoinRange(q, lo, hi) ==
  IF lo = hi THEN q[lo]
  ELSE LET mid == (lo + hi) \div 2 IN JoinRange(q, lo, mid) \o " " \o JoinRange(q, mid + 1, hi)
JoinSp(q) == IF Len(q) = 0 THEN "" ELSE JoinRange(q, 1, Len(q))

\* names that already carry the Layer-M prefix
MNames == {"M:argument_modified", "M:legacy_layout_differs", "M:vocab_size_differs", "M:padding_index_differs",
           "M:legacy_vocab_size_differs", "M:legacy_padding_index_differs", "M:cf_zero_not_empty"}
\* a record whose input lies outside the statement's quantifier: every clause becomes Layer M
Relayer(r, cs) == IF r.layer = "M" THEN {IF c \in MNames THEN c ELSE "M:" \o c : c \in cs} ELSE cs
PadOk(pad, L) == pad = -1 \/ (pad + 1 \in 1..Len(L) /\ L[pad + 1] = "<PADDING>")

PosClauses(r) ==
  Flag(InV(r.pos) /\ TokAt(r.pos) = r.tok, "position_differs_from_published_layout")
  \cup Flag(r.idx = r.pos, "token_to_index_not_inverse")

VocabClauses(r) ==
  Flag(Len(r.list) = VocabSize, "vocab_size_not_4096")
  \cup Flag(Distinct(r.list), "vocab_duplicates")
  \cup Flag(r.list = SpecVocab, "vocab_differs_from_published_layout")
  \cup Flag(MapInverts(r.t2i, r.list), "token_to_index_not_inverse")
  \cup Flag(r.vsize = -1 \/ r.vsize = Len(r.list), "M:vocab_size_differs")
  \cup Flag(PadOk(r.pad, r.list), "M:padding_index_differs")

CfClauses(r) ==
  IF r.res # "ok" THEN {"cf_raises"} ELSE
  LET m == r.m  q == r.lists[m] IN
  \* every list of the record is a fresh observation: a smaller one that is empty / short is not "a prefix"
  Flag(Len(q) = m * m /\ SeqRange(q) = Grid(m) /\ \A k \in 1..(m - 1) : Len(r.lists[k]) = k * k, "cf_not_permutation_of_grid")
  \cup Flag(q = CornerFirst(m), "cf_differs_from_corner_first_order")
  \cup Flag(\A k \in 1..(m - 1) : PrefixOf(r.lists[k], q), "cf_prefix_broken")

LegEnc(A, e) ==
  IF e.res = "ok"
  THEN Flag(Len(e.ids) = Len(e.toks) /\ \A k \in 1..Len(e.toks) : e.ids[k] + 1 \in 1..Len(A) /\ A[e.ids[k] + 1] = e.toks[k],
            "legacy_encode_wrong_id")
       \cup Flag(e.back_res = "ok" /\ e.back = e.toks, "legacy_decode_of_encode_not_identity")
       \cup (IF e.sres = "skip" THEN {} ELSE Flag(e.sres = "ok" /\ e.sids = e.ids, "legacy_encode_of_joined_string_differs"))
       \cup Flag(~e.argmod, "M:argument_modified")
  ELSE Flag(\E k \in 1..Len(e.toks) : e.toks[k] \notin SeqRange(A), "legacy_encode_rejects_own_token")
LegDec(A, d) ==
  IF \A k \in 1..Len(d.ids) : d.ids[k] + 1 \in 1..Len(A)
  THEN IF d.res # "ok" THEN {"legacy_decode_rejects_own_id"}
       ELSE Flag(Len(d.toks) = Len(d.ids) /\ \A k \in 1..Len(d.ids) : d.toks[k] = A[d.ids[k] + 1], "legacy_decode_wrong_token")
            \cup Flag(d.back_res = "ok" /\ d.back = d.ids, "legacy_encode_of_decode_not_identity")
            \cup (IF d.jres = "skip" THEN {}
                  ELSE Flag(d.jres = "ok" /\ d.joined = JoinSp([k \in 1..Len(d.ids) |-> A[d.ids[k] + 1]]), "legacy_decode_joined_differs"))
            \cup Flag(~d.argmod, "M:argument_modified")
  ELSE {}
LegacyClauses(r) ==
  IF r.res # "ok" THEN {"legacy_vocabulary_raises"} ELSE
  LET A == r.arr IN
  Flag(Distinct(A), "legacy_duplicates")
  \cup Flag(MapInverts(r.map, A), "legacy_map_not_inverse")
  \cup (IF r.mode = "AOTP_UT_rasterized"
        THEN Flag(SelectSeq(A, LAMBDA t : t \notin SpecialSet) = UTs(RowMajor(r.n)), "legacy_not_row_major")
        ELSE {})
  \cup Flag(r.mode \in Modes /\ A = LegacyVocab(r.mode, r.n), "M:legacy_layout_differs")
  \cup Flag((r.vsize = -1 \/ r.vsize = Len(A)) /\ (r.ntok = -1 \/ r.ntok = Len(A)), "M:legacy_vocab_size_differs")
  \cup Flag(PadOk(r.pad, A), "M:legacy_padding_index_differs")
  \cup UNION {LegEnc(A, r.encs[p]) : p \in 1..Len(r.encs)}
  \cup UNION {LegDec(A, r.decs[p]) : p \in 1..Len(r.decs)}

LegacyPrefixClauses(r) ==
  IF r.res # "ok" THEN {"legacy_vocabulary_raises"} ELSE
  \* (the vocabulary of size k has more than k tokens: an empty / short list is not accepted as "a prefix")
  Flag(\A k \in 1..(r.m - 1) : Len(r.arrs[k]) > k /\ PrefixOf(r.arrs[k], r.arrs[r.m]), "legacy_prefix_broken")

EncClauses(r) ==
  LET unknown == \E k \in 1..Len(r.toks) : r.toks[k] \notin SpecSet IN
  IF unknown THEN Flag(r.res = "raise:TokenError", "unknown_token_no_token_error")
  ELSE IF r.res # "ok" THEN {"encode_rejects_vocabulary_token"}
  ELSE Flag(Len(r.ids) = Len(r.toks) /\ \A k \in 1..Len(r.toks) : InV(r.ids[k]) /\ TokAt(r.ids[k]) = r.toks[k], "encode_wrong_id")
       \cup Flag(r.back_res = "ok" /\ r.back = r.toks, "decode_of_encode_not_identity")
       \cup (IF r.sres = "skip" THEN {} ELSE Flag(r.sres = "ok" /\ r.sids = r.ids, "encode_of_joined_string_differs"))
       \cup Flag(~r.argmod, "M:argument_modified")

DecClauses(r) ==
  IF \A k \in 1..Len(r.ids) : InV(r.ids[k])
  THEN IF r.res # "ok" THEN {"decode_rejects_vocabulary_id"}
       ELSE Flag(Len(r.toks) = Len(r.ids) /\ \A k \in 1..Len(r.ids) : r.toks[k] = TokAt(r.ids[k]), "decode_wrong_token")
            \cup Flag(r.back_res = "ok" /\ r.back = r.ids, "encode_of_decode_not_identity")
            \cup (IF r.jres = "skip" THEN {}
                  ELSE Flag(r.jres = "ok" /\ r.joined = JoinSp([k \in 1..Len(r.ids) |-> TokAt(r.ids[k])]), "decode_joined_differs"))
            \cup Flag(~r.argmod, "M:argument_modified")
  ELSE IF r.res = "raise:TokenError" THEN {}
  ELSE IF \E k \in 1..Len(r.ids) : r.ids[k] >= VocabSize THEN {"too_large_id_no_token_error"}
  ELSE {"negative_id_no_token_error"}

Clauses(r) ==
  CASE r.kind = "pos"           -> PosClauses(r)
    [] r.kind = "vocab"         -> VocabClauses(r)
    [] r.kind = "cf"            -> CfClauses(r)
    [] r.kind = "cf0"           -> IF r.res = "ok" /\ Len(r.list) = 0 THEN {} ELSE {"M:cf_zero_not_empty"}
    [] r.kind = "legacy"        -> Relayer(r, LegacyClauses(r))
    [] r.kind = "legacy_prefix" -> LegacyPrefixClauses(r)
    [] r.kind = "enc"           -> Relayer(r, EncClauses(r))
    [] r.kind = "dec"           -> Relayer(r, DecClauses(r))
    [] OTHER                    -> {"unknown_record_kind"}

VARIABLES l, bad
Init == l = 1 /\ bad = {} /\ n = 1
Next == /\ l <= Len(Log) /\ l' = l + 1 /\ n' = n
        /\ bad' = bad \cup (LET cs == Clauses(Log[l]) IN IF cs = {} THEN {} ELSE {[id |-> Log[l].id, c |-> cs]})
Spec == Init /\ [][Next]_<<l, bad, n>>
Done == (l = Len(Log) + 1) =>
          ndJsonSerialize(IOEnv.VERIF_OUT, <<[id |-> -1, c |-> {ToString(Len(Log))}]>> \o SetToSeq(bad))
=============================================================================
