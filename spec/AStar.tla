------------------------------ MODULE AStar ------------------------------
(* LatticeMaze.find_shortest_path, one action per iteration of its `while open_vtx` loop.
   Faithful to the code: g[start] := h(start,end) (the code overwrites the 0.0), f[start] := 0,
   strict-improvement relaxation, closed set, goal test when a node is *extracted*.
   Iterate(c) is enabled for EVERY c with minimal f in `open`: the code's min() over a Python set
   is one refinement; the model shows the result is independent of the tie-break. *)
EXTENDS Lattice, TLC
CONSTANTS Shapes           \* set of <<rows, cols>>
VARIABLES R, C, conn,      \* the maze (conn in the raw layout of Lattice.tla)
          s, t,            \* query
          open, closed, g, f, src, phase, result
avars == <<R, C, conn, s, t, open, closed, g, f, src, phase, result>>

Cells == CellsOf(R, C)
\* all raw arrays of a shape whose boundary slots are 0 (what every generator produces)
ConnsOf(r, c) ==
  {x \in [1..2 -> [1..r -> [1..c -> {0, 1}]]] :
     (\A j \in 1..c : x[1][r][j] = 0) /\ (\A i \in 1..r : x[2][i][c] = 0)}

AInit(r, c, cn, s0, t0) ==
  /\ R = r /\ C = c /\ conn = cn /\ s = s0 /\ t = t0
  /\ open = {s0} /\ closed = {}
  /\ g = [x \in {s0} |-> Manhattan(s0, t0)] /\ f = [x \in {s0} |-> 0]
  /\ src = [x \in {} |-> x] /\ phase = "run" /\ result = <<>>

Init == \E sh \in Shapes : \E cn \in ConnsOf(sh[1], sh[2]) :
          \E s0 \in CellsOf(sh[1], sh[2]), t0 \in CellsOf(sh[1], sh[2]) : AInit(sh[1], sh[2], cn, s0, t0)

RECURSIVE Back(_, _, _)
Back(sr, c, acc) == IF c \in DOMAIN sr THEN Back(sr, sr[c], <<sr[c]>> \o acc) ELSE acc

\* the successor state of one loop iteration, written as functions of the extracted node c so that
\* the trace spec can ask "does some c explain the next snapshot?" without priming
CanExtract(c) == phase = "run" /\ c \in open /\ \A d \in open : f[c] <= f[d]
Upd(c) == {n \in NbC(R, C, conn, c) \ closed : n \notin open \/ g[c] + 1 < g[n]}
NextOpen(c)   == IF c = t THEN open ELSE (open \ {c}) \cup Upd(c)
NextClosed(c) == IF c = t THEN closed ELSE closed \cup {c}
NextG(c)   == IF c = t THEN g ELSE [n \in DOMAIN g \cup Upd(c) |-> IF n \in Upd(c) THEN g[c] + 1 ELSE g[n]]
NextF(c)   == IF c = t THEN f ELSE [n \in DOMAIN f \cup Upd(c) |-> IF n \in Upd(c) THEN g[c] + 1 + Manhattan(n, t) ELSE f[n]]
NextSrc(c) == IF c = t THEN src ELSE [n \in DOMAIN src \cup Upd(c) |-> IF n \in Upd(c) THEN c ELSE src[n]]
Iterate(c) ==
  /\ CanExtract(c)
  /\ open' = NextOpen(c) /\ closed' = NextClosed(c) /\ g' = NextG(c) /\ f' = NextF(c) /\ src' = NextSrc(c)
  /\ phase' = (IF c = t THEN "found" ELSE "run")
  /\ result' = (IF c = t THEN Back(src, c, <<c>>) ELSE result)
  /\ UNCHANGED <<R, C, conn, s, t>>

Fail == /\ phase = "run" /\ open = {} /\ phase' = "raise"
        /\ UNCHANGED <<R, C, conn, s, t, open, closed, g, f, src, result>>

IterateAny == \E c \in Cells : Iterate(c)
Next == IterateAny \/ Fail
Spec == Init /\ [][Next]_avars

D == Dist(R, C, conn, s, t)
Sound == phase = "found" => /\ D # Infinity /\ Len(result) = D + 1
                            /\ result[1] = s /\ result[Len(result)] = t
                            /\ IsWalk(R, C, conn, result)
Complete == phase = "raise" => D = Infinity
SelfQuery == (phase = "found" /\ s = t) => result = <<s>>
\* the algorithm never extracts a node twice and g of a closed node is its true distance (+ offset)
ClosedExact == \A c \in closed : g[c] = Dist(R, C, conn, s, c) + Manhattan(s, t)

\* ---------------------------------------------------------------- termination
\* every iteration that does not end the search closes one more cell, closed cells never re-open: the loop body runs at most
\* R*C + 1 times.  Stated as a strictly decreasing measure (a safety property TLC checks on every transition) and, under weak
\* fairness of the loop, as the liveness property that every query is answered.
Measure == IF phase = "run" THEN 1 + (R * C - Cardinality(closed)) ELSE 0
MeasureNat == Measure >= 0
Terminates == [][Measure' < Measure]_avars
FairSpec == Spec /\ WF_avars(Next)
Answered == <>(phase \in {"found", "raise"})
==========================================================================
