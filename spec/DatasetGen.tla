----------------------------- MODULE DatasetGen -----------------------------
(* MazeDataset.generate: the config is copied, then either the serial path
   (_maze_gen_init_worker(cfg_cpy); map(_generate_maze_helper, indices)) or the pool path
   (Pool(processes = W, initializer = _maze_gen_init_worker, initargs = (cfg_cpy,)); imap(helper, indices)).
   _generate_maze_helper reads the PROCESS-GLOBAL _GLOBAL_WORKER_CONFIG, so the global is a variable:
   one for the parent process, one per forked worker (fork copies the parent's value).
   Several generate calls happen one after the other in the same parent process (stale-global hazard).
   The two boolean constants select deliberately broken designs that TLC must reject. *)
EXTENDS Naturals, Sequences, FiniteSets, TLC
CONSTANTS Cfgs, NMazes, MaxWorkers, MaxCalls,
          InitSetsGlobal,   \* the pool initializer stores the config in the worker's global
          SerialInits       \* the serial path calls the initializer before mapping (FALSE: only when the global is unset)
Unset == "unset"
NoCall == [cfg |-> "none", mode |-> "none", W |-> 0]
\* @type: (Str) => <<Str, Int>>;
St(x) == <<x, 0>>
VARIABLES pglobal,     \* parent's _GLOBAL_WORKER_CONFIG
          call,        \* the generate call in progress: [cfg, mode, W] or NoCall
          wglobal,     \* worker -> its copy of the global
          wstate,      \* worker -> St("new") | St("idle") | <<"busy", i>> | St("gone")
          nextIdx,     \* the next task index imap will hand out (tasks are handed out in index order); > NMazes: none left
          results,     \* index -> the config the item was built from (Unset = not yet delivered)
          ncalls, out  \* finished calls: sequence of <<cfg, results>>
dvars == <<pglobal, call, wglobal, wstate, nextIdx, results, ncalls, out>>
Workers == 1..MaxWorkers
Idx == 1..NMazes
Init == /\ pglobal = Unset /\ call = NoCall /\ wglobal = [w \in Workers |-> Unset]
        /\ wstate = [w \in Workers |-> St("gone")] /\ nextIdx = NMazes + 1 /\ results = [i \in Idx |-> Unset] /\ ncalls = 0 /\ out = <<>>
StartSerial(c) ==
  /\ call = NoCall /\ ncalls < MaxCalls
  /\ call' = [cfg |-> c, mode |-> "serial", W |-> 0]
  /\ pglobal' = (IF SerialInits \/ pglobal = Unset THEN c ELSE pglobal)   \* broken variant: lazy init only
  /\ nextIdx' = 1 /\ results' = [i \in Idx |-> Unset]
  /\ ncalls' = ncalls + 1 /\ UNCHANGED <<wglobal, wstate, out>>
SerialItem ==
  /\ call # NoCall /\ call.mode = "serial" /\ nextIdx <= NMazes
  /\ results' = [results EXCEPT ![nextIdx] = pglobal]           \* the helper reads the global
  /\ nextIdx' = nextIdx + 1 /\ UNCHANGED <<pglobal, call, wglobal, wstate, ncalls, out>>
StartParallel(c, W) ==
  /\ call = NoCall /\ ncalls < MaxCalls /\ W \in Workers
  /\ call' = [cfg |-> c, mode |-> "pool", W |-> W]
  /\ wglobal' = [w \in Workers |-> IF w <= W THEN pglobal ELSE Unset]   \* fork copies the parent's memory
  /\ wstate' = [w \in Workers |-> IF w <= W THEN St("new") ELSE St("gone")]
  /\ nextIdx' = 1 /\ results' = [i \in Idx |-> Unset]
  /\ ncalls' = ncalls + 1 /\ UNCHANGED <<pglobal, out>>
WorkerInit(w) ==
  /\ call # NoCall /\ call.mode = "pool" /\ wstate[w] = St("new")
  /\ wglobal' = [wglobal EXCEPT ![w] = IF InitSetsGlobal THEN call.cfg ELSE @]
  /\ wstate' = [wstate EXCEPT ![w] = St("idle")] /\ UNCHANGED <<pglobal, call, nextIdx, results, ncalls, out>>
Take(w) ==
  /\ call # NoCall /\ call.mode = "pool" /\ wstate[w] = St("idle") /\ nextIdx <= NMazes
  /\ wstate' = [wstate EXCEPT ![w] = <<"busy", nextIdx>>] /\ nextIdx' = nextIdx + 1
  /\ UNCHANGED <<pglobal, call, wglobal, results, ncalls, out>>
FinishTask(w) ==
  /\ call # NoCall /\ call.mode = "pool" /\ wstate[w][1] = "busy"
  /\ results' = [results EXCEPT ![wstate[w][2]] = wglobal[w]]
  /\ wstate' = [wstate EXCEPT ![w] = St("idle")] /\ UNCHANGED <<pglobal, call, wglobal, nextIdx, ncalls, out>>
Collect ==
  /\ call # NoCall /\ nextIdx > NMazes /\ \A i \in Idx : results[i] # Unset
  /\ (call.mode = "pool" => \A w \in Workers : wstate[w][1] # "busy")
  /\ out' = Append(out, <<call.cfg, results>>) /\ call' = NoCall
  /\ wstate' = [w \in Workers |-> St("gone")] /\ UNCHANGED <<pglobal, wglobal, nextIdx, results, ncalls>>
StartAny == \E c \in Cfgs : StartSerial(c) \/ \E W \in Workers : StartParallel(c, W)
WorkerAny == \E w \in Workers : WorkerInit(w) \/ Take(w) \/ FinishTask(w)
Next == StartAny \/ SerialItem \/ WorkerAny \/ Collect
Spec == Init /\ [][Next]_dvars
\* C03: every delivered item was built from the configuration of THIS call; exactly n_mazes slots
ItemFromThisCfg == \A k \in DOMAIN out : \A i \in Idx : out[k][2][i] = out[k][1]
LenExact == \A k \in DOMAIN out : DOMAIN out[k][2] = Idx
NoLostTask == (call # NoCall /\ nextIdx > NMazes /\ (\A w \in Workers : wstate[w][1] # "busy")) => \A i \in Idx : results[i] # Unset
\* strengthening that makes ItemFromThisCfg inductive (discharged by Apalache for any number of generate calls:
\* spec/apalache/MC_DatasetGen.tla)
Strengthening ==
  /\ (call # NoCall /\ call.mode = "serial" => pglobal = call.cfg)
  /\ (call # NoCall /\ call.mode = "pool" => \A w \in Workers : wstate[w][1] \in {"idle", "busy"} => wglobal[w] = call.cfg)
  /\ (call # NoCall => \A i \in Idx : results[i] \in {Unset, call.cfg})
  /\ (call # NoCall => call.cfg \in Cfgs)
CfgsAB == {"a", "b"}

\* ---------------------------------------------------------------- progress (liveness, beyond the listed properties)
\* a generate call in progress is never stuck, and with a fair scheduler of the workers every call returns:
\* no worker can hold the last task forever, no task is handed out twice or not at all (NoLostTask above is the safety half).
NoStuckCall == call # NoCall => ENABLED (SerialItem \/ WorkerAny \/ Collect)
Remaining == IF call = NoCall THEN 0
             ELSE 1 + 3 * Cardinality({i \in Idx : i >= nextIdx}) + Cardinality({w \in Workers : wstate[w] = St("new")})
                    + 2 * Cardinality({w \in Workers : wstate[w][1] = "busy"})
\* every step of a call in progress strictly decreases the work left (so a call takes at most 1 + 3 * NMazes + MaxWorkers steps)
CallMakesProgress == [][(call # NoCall /\ call' = call) => Remaining' < Remaining]_dvars
FairSpec == Spec /\ WF_dvars(SerialItem) /\ WF_dvars(Collect) /\ \A w \in Workers : WF_dvars(WorkerInit(w) \/ Take(w) \/ FinishTask(w))
EveryCallReturns == (call # NoCall) ~> (call = NoCall)
==============================================================================
