CONSTANTS Cfgs <- CfgsC12
  W = 3  MaxFaults = 3  MaxReqs = 3  CheckDiff = TRUE  SwallowReadErrors = TRUE
SPECIFICATION Spec
INVARIANT NeverWrongData
INVARIANT LoadableAfter
INVARIANT NoReadError
CHECK_DEADLOCK FALSE
