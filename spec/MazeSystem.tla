----------------------------- MODULE MazeSystem -----------------------------
(* Composition of the mechanisms specified per property: configuration -> on-disk cache -> generation ->
   filters -> save / read, over abstract data.  What a dataset CONTAINS is abstracted to its denotation
   key <<c, fl>>: "the mazes obtained by generating base configuration c and applying the filter list fl in
   order" (generation is a pure function of the configuration: C04; filters select deterministically: C08;
   serialization is lossless: C05).  The system-level invariant no single property states:

       every dataset the library hands out - cold, from a warm cache, after filtering, after any number of
       save / read round trips, whichever way it was obtained - contains exactly what its own configuration
       (base config + recorded filter provenance) says, and so does every file on disk.

   Objects: handles h (in-memory datasets) with  cfg = <<c, fl>>  and  data = a denotation key;
   disk: cache files keyed by the requested configuration <<c, fl>> (the real file name contains the hash of
   the serialized config incl. applied_filters) and user files keyed by a user path.
   KeyIncludesFilters = FALSE is the deliberately broken design (cache name ignores the filter list). *)
EXTENDS Naturals, Sequences, FiniteSets, TLC
CONSTANTS Bases, Filters, Paths, MaxFl, MaxHandles, MaxColls, MaxOps, KeyIncludesFilters,
          Views      \* derived views a user takes of a dataset: "tok" (as_tokens with a deterministic tokenizer), "pix" (as_pixels), "asc" (as_ascii)
VARIABLES hs,        \* sequence of handles [cfg, data]
          colls,     \* sequence of collections: each a sequence of member handles [cfg, data]
          cache,     \* cache key -> Absent | [cfg, data]
          files,     \* user path -> Absent | [cfg, data]
          ops, hist
svars == <<hs, colls, cache, files, ops, hist>>
FlSeqs == UNION {[1..n -> Filters] : n \in 0..MaxFl}
Keys == Bases \X FlSeqs
CacheKey(c, fl) == IF KeyIncludesFilters THEN <<c, fl>> ELSE <<c, <<>>>>
Absent == [cfg |-> <<"-", <<>>>>, data |-> <<"-", <<>>>>]      \* (a record, so that it is comparable with real entries)
Init == /\ hs = <<>> /\ colls = <<>> /\ cache = [k \in Keys |-> Absent] /\ files = [p \in Paths |-> Absent] /\ ops = 0 /\ hist = <<>>
Tick == ops < MaxOps /\ ops' = ops + 1
H(e) == hist' = Append(hist, e)
\* from_config(cfg(c, fl)) with the local cache: a warm file is returned as stored (after the config check,
\* which compares every field but n_mazes: base config AND filter provenance); a cold request generates,
\* applies the configured filters in order and saves
Request(c, fl) ==
  /\ Tick /\ Len(hs) < MaxHandles /\ <<c, fl>> \in Keys
  /\ LET k == CacheKey(c, fl) IN
     IF cache[k] # Absent
       THEN IF cache[k].cfg = <<c, fl>>
              THEN /\ hs' = Append(hs, cache[k]) /\ UNCHANGED <<cache, files, colls>> /\ H([op |-> "request", c |-> c, fl |-> fl, how |-> "warm"])
              ELSE /\ UNCHANGED <<hs, cache, files, colls>> /\ H([op |-> "request", c |-> c, fl |-> fl, how |-> "mismatch"])
       ELSE /\ hs' = Append(hs, [cfg |-> <<c, fl>>, data |-> <<c, fl>>])
            /\ cache' = [cache EXCEPT ![k] = [cfg |-> <<c, fl>>, data |-> <<c, fl>>]]
            /\ UNCHANGED <<files, colls>> /\ H([op |-> "request", c |-> c, fl |-> fl, how |-> "cold"])
\* h.filter_by.f(): a NEW dataset; provenance appended; the input handle is untouched
Filter(i, f) ==
  /\ Tick /\ i \in 1..Len(hs) /\ Len(hs) < MaxHandles /\ Len(hs[i].cfg[2]) < MaxFl
  /\ LET nf == Append(hs[i].cfg[2], f) IN
     hs' = Append(hs, [cfg |-> <<hs[i].cfg[1], nf>>, data |-> <<hs[i].data[1], Append(hs[i].data[2], f)>>])
  /\ UNCHANGED <<cache, files, colls>> /\ H([op |-> "filter", i |-> i, f |-> f])
Save(i, p) == /\ Tick /\ i \in 1..Len(hs) /\ files' = [files EXCEPT ![p] = hs[i]]
              /\ UNCHANGED <<hs, cache, colls>> /\ H([op |-> "save", i |-> i, p |-> p])
Read(p) == /\ Tick /\ files[p] # Absent /\ Len(hs) < MaxHandles /\ hs' = Append(hs, files[p])
           /\ UNCHANGED <<cache, files, colls>> /\ H([op |-> "read", p |-> p])
\* MazeDatasetCollection(cfg built from the members' configs, [hs[i], hs[j]]): the members themselves, in order
Collect(i, j) ==
  /\ Tick /\ i \in 1..Len(hs) /\ j \in 1..Len(hs) /\ Len(colls) < MaxColls
  /\ colls' = Append(colls, <<hs[i], hs[j]>>)
  /\ UNCHANGED <<hs, cache, files>> /\ H([op |-> "collect", i |-> i, j |-> j])
\* MazeDatasetCollection.generate(collection config over base configs c and d): members generated from their configs
CollGenerate(c, d) ==
  /\ Tick /\ c \in Bases /\ d \in Bases /\ Len(colls) < MaxColls
  /\ colls' = Append(colls, <<[cfg |-> <<c, <<>>>>, data |-> <<c, <<>>>>], [cfg |-> <<d, <<>>>>, data |-> <<d, <<>>>>]>>)
  /\ UNCHANGED <<hs, cache, files>> /\ H([op |-> "collgen", c |-> c, d |-> d])
\* load(serialize(collection)): an equal collection (member by member)
CollRoundTrip(k) ==
  /\ Tick /\ k \in 1..Len(colls) /\ Len(colls) < MaxColls
  /\ colls' = Append(colls, colls[k])
  /\ UNCHANGED <<hs, cache, files>> /\ H([op |-> "collrt", k |-> k])
\* a derived view (tokens / pixels / ascii of every maze) reads the DATA of the handle and nothing else: not how the handle was
\* obtained (cold, warm cache, filter, file), not its position in the history; it changes nothing
View(i, v) ==
  /\ Tick /\ i \in 1..Len(hs) /\ v \in Views
  /\ UNCHANGED <<hs, colls, cache, files>> /\ H([op |-> "view", i |-> i, v |-> v, of |-> hs[i].data])
Next == \/ \E i \in 1..MaxHandles, v \in Views : View(i, v)
        \/ \E i, j \in 1..MaxHandles : Collect(i, j)
        \/ \E c, d \in Bases : CollGenerate(c, d)
        \/ \E k \in 1..MaxColls : CollRoundTrip(k)
        \/ \E c \in Bases, fl \in FlSeqs : Request(c, fl)
        \/ \E i \in 1..MaxHandles, f \in Filters : Filter(i, f)
        \/ \E i \in 1..MaxHandles, p \in Paths : Save(i, p)
        \/ \E p \in Paths : Read(p)
Spec == Init /\ [][Next]_svars
\* ---------------------------------------------------------------- system-level invariants
ConfigTellsTheTruth == \A i \in 1..Len(hs) : hs[i].data = hs[i].cfg
FilesTellTheTruth == /\ \A k \in Keys : cache[k] # Absent => cache[k].data = cache[k].cfg
                     /\ \A p \in Paths : files[p] # Absent => files[p].data = files[p].cfg
\* a collection is the sequence of its members, each of which is what its own configuration says (C16 / C05 composed)
CollectionsTellTheTruth == \A k \in 1..Len(colls) : \A m \in 1..Len(colls[k]) : colls[k][m].data = colls[k][m].cfg
\* a request never hands out a dataset of another configuration
RequestGetsWhatItAskedFor ==
  \A j \in 1..Len(hist) : (hist[j].op = "request" /\ hist[j].how # "mismatch") =>
     \E i \in 1..Len(hs) : hs[i].cfg = <<hist[j].c, hist[j].fl>>
\* with a truthful cache name a mismatch can never occur
NoMismatch == \A j \in 1..Len(hist) : hist[j].op = "request" => hist[j].how # "mismatch"
\* every view ever taken was a view of exactly what the handle's own configuration denotes: tokenize . load = tokenize,
\* pixels of a cached / filtered / re-read dataset = pixels of the freshly generated and filtered one
ViewsShowWhatTheConfigSays == \A j \in 1..Len(hist) : hist[j].op = "view" => hist[j].of = hs[hist[j].i].cfg
NoHist == <<hs, colls, cache, files, ops>>
NoViews == {}
ViewsTP == {"tok", "pix", "asc"}
BasesAB == {"a", "b"}
FiltersPT == {"p", "t"}
PathsXY == {"x"}
==============================================================================
