--------------------------- MODULE Trace_AStar ---------------------------
(* Use (C), step level, for C02: loop-head snapshots of real find_shortest_path executions are
   matched against AStar!Iterate.  Batched: many traces per run (tid), position l in the trace.
   Layer M clauses ("M:...") say the code's steps are not the model's steps; Layer P clauses are
   the property's own (evaluated on the public result). *)
EXTENDS AStar, Json, IOUtils, SequencesExt
Log == ndJsonDeserialize(IOEnv.VERIF_LOG)
VARIABLES tid, l, bad
tvars == <<avars, tid, l, bad>>
T == Log[tid]
GOf(q) == [c \in {Cell(x) : x \in SeqToSet(q)} |-> (CHOOSE x \in SeqToSet(q) : Cell(x) = c)[3]]
SnapMatches(c, sn) ==
  /\ CanExtract(c)
  /\ NextOpen(c) = CellSet(sn.open) /\ NextClosed(c) = CellSet(sn.closed)
  /\ NextG(c) = GOf(sn.g)
Load(k) ==
  IF k <= Len(Log) THEN
    LET u == Log[k] s0 == Cell(u.s) t0 == Cell(u.e) IN
    /\ R' = u.R /\ C' = u.C /\ conn' = u.conn /\ s' = s0 /\ t' = t0
    /\ open' = {s0} /\ closed' = {}
    /\ g' = [x \in {s0} |-> Manhattan(s0, t0)] /\ f' = [x \in {s0} |-> 0]
    /\ src' = [x \in {} |-> x] /\ phase' = "run" /\ result' = <<>>
  ELSE UNCHANGED avars
TInit == /\ tid = 1 /\ l = 1 /\ bad = {}
         /\ LET u == Log[1] IN AInit(u.R, u.C, u.conn, Cell(u.s), Cell(u.e))
Verdict(cs) == IF cs = {} THEN bad ELSE bad \cup {[id |-> T.id, c |-> cs]}
\* a snapshot-to-snapshot step explained by Iterate(c) for some c
TStep ==
  /\ tid <= Len(Log) /\ l < Len(T.snaps)
  /\ \E c \in Cells : SnapMatches(c, T.snaps[l+1]) /\ Iterate(c)
  /\ l' = l + 1 /\ UNCHANGED <<tid, bad>>
\* no c explains the next snapshot: model divergence, skip the rest of this trace
TDiverge ==
  /\ tid <= Len(Log) /\ l < Len(T.snaps)
  /\ ~ \E c \in Cells : SnapMatches(c, T.snaps[l+1])
  /\ bad' = Verdict({"M:step_not_explained"}) /\ tid' = tid + 1 /\ l' = 1 /\ Load(tid + 1)
\* last snapshot reached: the outcome must be the one the model produces from here
TFinish ==
  /\ tid <= Len(Log) /\ l = Len(T.snaps)
  /\ LET okFound == T.res = "ok" /\ CanExtract(t) /\ Back(src, t, <<t>>) = [k \in 1..Len(T.path) |-> Cell(T.path[k])]
         okRaise == T.res = "raise:ValueError" /\ open = {}
         m == IF okFound \/ okRaise THEN {} ELSE {"M:outcome_differs"}
         p == IF T.res = "ok"
                THEN (IF IsShortestPath(R, C, conn, T.path, s, t) THEN {} ELSE {"result_not_a_shortest_path"})
              ELSE IF T.res = "raise:ValueError" THEN (IF D = Infinity THEN {} ELSE {"raises_but_connected"})
              ELSE {"unexpected_exception"}
     IN bad' = Verdict(m \cup p)
  /\ tid' = tid + 1 /\ l' = 1 /\ Load(tid + 1)
TNext == TStep \/ TDiverge \/ TFinish
TSpec == TInit /\ [][TNext]_tvars
Done == (tid = Len(Log) + 1) =>
          ndJsonSerialize(IOEnv.VERIF_OUT, <<[id |-> -1, c |-> {ToString(Len(Log))}]>> \o SetToSeq(bad))
\* the design-level invariants are evaluated on every state of every real execution
TSound == tid <= Len(Log) => ClosedExact
==========================================================================
