\* deliberately broken / refuted variant: TLC must report a violation of TBSlice
SPECIFICATION Spec
CONSTANTS
  Machines = {"tb"}
  LexAlphabet = {"(", ")", ",", " ", "0", "1", "9", "a"}
  FullLex = 3
  MaxLex = 5
  SplitAlphabet = {"(", ")", " ", "0", ","}
  MaxSplit = 4
  MaxTB = 4
  FPCoord = "UT"
  Broken = "tb_last_end"
INVARIANTS TBSlice
CHECK_DEADLOCK FALSE
