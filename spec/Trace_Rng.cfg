CONSTANTS Seeds <- Seeds12  Cfgs <- CfgsAB  SeedOf <- SeedMap  UsesPy <- PyMap  NFilters <- FilterMap
  K = 2  MaxSteps = 1000  ReseedOnCopy = TRUE
SPECIFICATION TSpec
INVARIANT Done
CHECK_DEADLOCK FALSE
