------------------------------- MODULE SysEmit -------------------------------
(* spec -> code: every behaviour of MazeSystem that reaches the horizon prints its operation history as one JSON line *)
EXTENDS MazeSystem, Json
EmitAtHorizon == ops = MaxOps => PrintT("HIST " \o ToJson(hist))
==============================================================================
