---------------------------- MODULE GraphViews ----------------------------
(* C13 -- every graph query on a maze describes the same graph as its connection structure.

   Part 1: the VIEWS, as definitions over the raw array conn[d][i][j] (layout of Lattice.tla),
   written at graph level (cells, neighbour sets, reachability).  These are what the oracle
   Trace_Views.tla judges the real methods against.
   Part 2: array-level formulas of the same views (slices / sorted endpoints / lesser endpoint: the
   way an implementation over the raw array would compute them) -- independent second definitions.
   Part 3: a small model: state = one graph of one shape, actions add / remove one lattice edge, so
   every graph of every shape in `Shapes` is reached.  TLC checks that graph-level and array-level
   definitions agree on every graph (sanity of the oracle), the stated from_adj_list premise is
   sufficient, fork / path-following points partition every solution, and that one edge changes the
   views only locally.  Boolean constants switch in deliberately wrong array formulas; TLC must
   reject those (non-vacuity of the invariants). *)
EXTENDS Lattice, TLC
CONSTANTS Shapes,          \* set of <<rows, cols>>
          BugWestSlice,    \* degree accumulation forgets the west neighbour
          BugNoSort        \* batch edge test without sorting the endpoints

(* ------------------------------------------------------------------ Part 1: the views *)
\* nodes_connected(a, b): two grid cells are joined by a connection
NodesConnected(R, C, conn, a, b) ==
  /\ InGridCell(R, C, a) /\ InGridCell(R, C, b)
  /\ Adjacent(a, b) /\ Linked(conn, a, b)
\* get_coord_neighbors(a), coord_degrees()[a]
Neighbours(R, C, conn, a) == NbC(R, C, conn, a)
DegreeOf(R, C, conn, a) == Cardinality(NbC(R, C, conn, a))
\* gen_connected_component_from(a)
Component(R, C, conn, a) == Reach(R, C, conn, a)
Components(R, C, conn) == {Reach(R, C, conn, a) : a \in CellsOf(R, C)}
\* is_valid_path(p, empty_is_valid)
ValidPath(R, C, conn, p, emptyOk) == IF Len(p) = 0 THEN emptyOk ELSE IsWalk(R, C, conn, p)
\* get_nodes()
Nodes(R, C) == CellsOf(R, C)
\* the edge set, one slot per connection
EdgeSlots(R, C, conn) == {s \in SetSlots(R, C, conn) : Interior(R, C, s)}

\* as_adj_list(): q = sequence of pairs <<a, b>>; each connection exactly once, either orientation
AdjEntryIsEdge(R, C, conn, e) == NodesConnected(R, C, conn, Cell(e[1]), Cell(e[2]))
AdjSlots(q) == {SlotOf(Cell(q[k][1]), Cell(q[k][2])) : k \in 1..Len(q)}
IsAdjListOf(R, C, conn, q) ==
  /\ \A k \in 1..Len(q) : AdjEntryIsEdge(R, C, conn, q[k])
  /\ Len(q) = Cardinality(EdgeSlots(R, C, conn))          \* with the next line: no connection twice
  /\ AdjSlots(q) = EdgeSlots(R, C, conn)

\* from_adj_list(as_adj_list()) = same structure.  Stated premise: the highest row index and the
\* highest column index occur in some connection (the grid size is inferred from the list); the
\* method is documented for square mazes only.
RowsUsed(R, C, conn) == UNION {{a[1] : a \in SlotEdge(s)} : s \in EdgeSlots(R, C, conn)}
ColsUsed(R, C, conn) == UNION {{a[2] : a \in SlotEdge(s)} : s \in EdgeSlots(R, C, conn)}
RebuildPremise(R, C, conn) == R = C /\ (R - 1) \in RowsUsed(R, C, conn) /\ (C - 1) \in ColsUsed(R, C, conn)

\* solution forking points (0-based indices into the solution sol):
\* first and last cell: not a dead end (> 1 neighbour); interior cells: > 2 neighbours
IsForkIdx(R, C, conn, sol, k) ==
  LET d == DegreeOf(R, C, conn, Cell(sol[k + 1])) IN
  IF k = 0 \/ k = Len(sol) - 1 THEN d > 1 ELSE d > 2
ForkIdxs(R, C, conn, sol, alwaysEnds) ==
  {k \in 0..(Len(sol) - 1) : IsForkIdx(R, C, conn, sol, k) \/ (alwaysEnds /\ (k = 0 \/ k = Len(sol) - 1))}
FollowIdxs(R, C, conn, sol) == (0..(Len(sol) - 1)) \ ForkIdxs(R, C, conn, sol, FALSE)

(* ------------------------------------------------------------------ Part 2: array-level formulas *)
B(conn, d, i, j) == IF Bit(conn, d, i, j) THEN 1 ELSE 0
\* degrees by slices: own south + east bit, west neighbour's east bit, north neighbour's south bit
DegArr(conn, a) ==
  B(conn, 0, a[1], a[2]) + B(conn, 1, a[1], a[2])
  + (IF a[2] > 0 /\ ~BugWestSlice THEN B(conn, 1, a[1], a[2] - 1) ELSE 0)
  + (IF a[1] > 0 THEN B(conn, 0, a[1] - 1, a[2]) ELSE 0)
\* batch edge test: sort the two endpoints coordinate-wise, direction = "rows equal", index at the lesser one
IsConnArr(conn, a, b) ==
  LET lo == IF BugNoSort THEN a ELSE <<MinI(a[1], b[1]), MinI(a[2], b[2])>>
      hi == IF BugNoSort THEN b ELSE <<MaxI(a[1], b[1]), MaxI(a[2], b[2])>>
      d  == IF hi[1] - lo[1] = 0 THEN 1 ELSE 0
  IN Bit(conn, d, lo[1], lo[2])
\* pairwise test by delta: direction = the coordinate that differs, stored at the endpoint the delta leaves from
ConnByDelta(conn, a, b) ==
  LET dr == b[1] - a[1]  dc == b[2] - a[2] IN
  IF AbsI(dr) + AbsI(dc) # 1 THEN FALSE
  ELSE LET d == IF AbsI(dr) = 1 THEN 0 ELSE 1  n == IF dr + dc > 0 THEN a ELSE b IN Bit(conn, d, n[1], n[2])
\* canonical adjacency list in array order (d, i, j), lesser endpoint first / second
RECURSIVE SeqOfSlots(_, _)
SeqOfSlots(S, rev) ==
  IF S = {} THEN <<>>
  ELSE LET s == CHOOSE x \in S : \A y \in S : (x[1] < y[1]) \/ (x[1] = y[1] /\ x[2] < y[2]) \/ (x[1] = y[1] /\ x[2] = y[2] /\ x[3] <= y[3])
           a == <<s[2], s[3]>>
           b == IF s[1] = 0 THEN <<s[2] + 1, s[3]>> ELSE <<s[2], s[3] + 1>>
       IN <<(IF rev THEN <<b, a>> ELSE <<a, b>>)>> \o SeqOfSlots(S \ {s}, rev)
CanonAdj(R, C, conn, rev) == SeqOfSlots(EdgeSlots(R, C, conn), rev)
\* rebuild: size = largest coordinate + 1 (square), each entry sets the bit at its lesser endpoint
MaxCoord(q) == CHOOSE m \in UNION {{q[k][1][1], q[k][1][2], q[k][2][1], q[k][2][2]} : k \in 1..Len(q)} :
                 \A k \in 1..Len(q) : m >= q[k][1][1] /\ m >= q[k][1][2] /\ m >= q[k][2][1] /\ m >= q[k][2][2]
Rebuild(q) ==
  LET n == MaxCoord(q) + 1  S == AdjSlots(q) IN
  [d \in 1..2 |-> [i \in 1..n |-> [j \in 1..n |-> IF <<d - 1, i - 1, j - 1>> \in S THEN 1 ELSE 0]]]

\* all simple paths (as sequences of cells) starting in `a`
RECURSIVE GrowPaths(_, _, _, _, _)
GrowPaths(R, C, conn, frontier, acc) ==
  IF frontier = {} THEN acc
  ELSE LET nxt == UNION {{Append(p, b) : b \in NbC(R, C, conn, p[Len(p)]) \ SeqToSet(p)} : p \in frontier}
       IN GrowPaths(R, C, conn, nxt, acc \cup nxt)
SimplePathsFrom(R, C, conn, a) == GrowPaths(R, C, conn, {<<a>>}, {<<a>>})

RECURSIVE SumOver(_, _, _, _, _)
SumOver(R, C, conn, S, acc) ==
  IF S = {} THEN acc ELSE LET a == CHOOSE x \in S : TRUE IN SumOver(R, C, conn, S \ {a}, acc + DegreeOf(R, C, conn, a))

(* ------------------------------------------------------------------ Part 3: the model *)
VARIABLES gR, gC, gconn
gvars == <<gR, gC, gconn>>
GCells == CellsOf(gR, gC)
SetBit(conn, s, v) == [conn EXCEPT ![s[1] + 1][s[2] + 1][s[3] + 1] = v]
Init == \E sh \in Shapes :
          /\ gR = sh[1] /\ gC = sh[2]
          /\ gconn = [d \in 1..2 |-> [i \in 1..sh[1] |-> [j \in 1..sh[2] |-> 0]]]
Add(s) == /\ Interior(gR, gC, s) /\ ~Bit(gconn, s[1], s[2], s[3])
          /\ gconn' = SetBit(gconn, s, 1) /\ UNCHANGED <<gR, gC>>
Remove(s) == /\ Interior(gR, gC, s) /\ Bit(gconn, s[1], s[2], s[3])
             /\ gconn' = SetBit(gconn, s, 0) /\ UNCHANGED <<gR, gC>>
AddAny == \E s \in Slots(gR, gC) : Add(s)
RemoveAny == \E s \in Slots(gR, gC) : Remove(s)
Next == AddAny \/ RemoveAny
Spec == Init /\ [][Next]_gvars

TypeOK == WellShaped(gR, gC, gconn) /\ InGrid(gR, gC, gconn)

\* pairwise test: symmetric, irreflexive, equals the delta formula and the batch formula
InvPairs ==
  \A a \in GCells : \A b \in GCells :
    /\ NodesConnected(gR, gC, gconn, a, b) = NodesConnected(gR, gC, gconn, b, a)
    /\ NodesConnected(gR, gC, gconn, a, b) = ConnByDelta(gconn, a, b)
    /\ (a = b => ~NodesConnected(gR, gC, gconn, a, b))
    /\ (Adjacent(a, b) => IsConnArr(gconn, a, b) = NodesConnected(gR, gC, gconn, a, b))
\* neighbour lists = the pairwise test; degrees = their size = the slice formula; handshake
InvNeighbours ==
  /\ \A a \in GCells :
       /\ Neighbours(gR, gC, gconn, a) = {b \in GCells : NodesConnected(gR, gC, gconn, a, b)}
       /\ DegreeOf(gR, gC, gconn, a) = DegArr(gconn, a)
  /\ SumOver(gR, gC, gconn, GCells, 0) = 2 * Cardinality(EdgeSlots(gR, gC, gconn))
\* components: contain their seed, are the same from every member, partition the cells, no edge leaves one
InvComponents ==
  /\ \A a \in GCells :
       LET K == Component(gR, gC, gconn, a) IN
       /\ a \in K
       /\ \A b \in K : Component(gR, gC, gconn, b) = K
       /\ \A b \in K : Neighbours(gR, gC, gconn, b) \subseteq K
  /\ UNION Components(gR, gC, gconn) = GCells
  /\ \A K1 \in Components(gR, gC, gconn) : \A K2 \in Components(gR, gC, gconn) : K1 = K2 \/ K1 \cap K2 = {}
\* path validation: one cell, two cells = the pairwise test, empty; reachability = existence of a valid path
InvPaths ==
  /\ ValidPath(gR, gC, gconn, <<>>, TRUE) /\ ~ValidPath(gR, gC, gconn, <<>>, FALSE)
  /\ \A a \in GCells :
       /\ ValidPath(gR, gC, gconn, <<a>>, FALSE)
       /\ ~ValidPath(gR, gC, gconn, <<<<a[1] - 1 - gR, a[2]>>>>, TRUE) /\ ~ValidPath(gR, gC, gconn, <<<<a[1], a[2] + gC>>>>, TRUE)
       /\ \A b \in GCells : ValidPath(gR, gC, gconn, <<a, b>>, FALSE) = NodesConnected(gR, gC, gconn, a, b)
       /\ LET P == SimplePathsFrom(gR, gC, gconn, a) IN
          /\ \A p \in P : ValidPath(gR, gC, gconn, p, FALSE) /\ IsSimple(p)
          /\ {p[Len(p)] : p \in P} = Component(gR, gC, gconn, a)
          \* a valid path stops being valid when its last step is replaced by a non-connection
          /\ \A p \in P : \A b \in GCells :
               ValidPath(gR, gC, gconn, Append(p, b), FALSE) = NodesConnected(gR, gC, gconn, p[Len(p)], b)
\* adjacency list: the canonical list in both orientations is accepted; dropping or repeating an entry is not
InvAdjList ==
  \A rev \in BOOLEAN :
    LET q == CanonAdj(gR, gC, gconn, rev) IN
    /\ IsAdjListOf(gR, gC, gconn, q)
    /\ (Len(q) > 0 => ~IsAdjListOf(gR, gC, gconn, Tail(q)) /\ ~IsAdjListOf(gR, gC, gconn, <<q[1]>> \o q))
    /\ (Len(q) > 1 => ~IsAdjListOf(gR, gC, gconn, <<q[1], q[1]>> \o SubSeq(q, 3, Len(q))))
\* rebuilding: the stated premise is sufficient (and, for square shapes, "largest coordinate = n-1" is exact)
InvRebuild ==
  /\ RebuildPremise(gR, gC, gconn) =>
       \A rev \in BOOLEAN : Rebuild(CanonAdj(gR, gC, gconn, rev)) = gconn
  /\ (gR = gC /\ EdgeSlots(gR, gC, gconn) # {}) =>
       ((Rebuild(CanonAdj(gR, gC, gconn, FALSE)) = gconn) <=> (MaxCoord(CanonAdj(gR, gC, gconn, FALSE)) = gR - 1))
\* forks: partition of the indices; "more than one onward choice" = neighbours other than the cell we came from
Onward(sol, k) ==
  Neighbours(gR, gC, gconn, sol[k + 1]) \ (IF k = 0 THEN {} ELSE {sol[k]})
InvForks ==
  \A a \in GCells : \A sol \in SimplePathsFrom(gR, gC, gconn, a) :
    LET n == Len(sol)
        F == ForkIdxs(gR, gC, gconn, sol, FALSE)
        E == ForkIdxs(gR, gC, gconn, sol, TRUE)
        P == FollowIdxs(gR, gC, gconn, sol)
    IN /\ F \cup P = 0..(n - 1) /\ F \cap P = {}
       /\ E = F \cup {0, n - 1}
       /\ \A k \in 0..(n - 2) : (k \in F) <=> Cardinality(Onward(sol, k)) > 1
       /\ ((n - 1) \in F) <=> DegreeOf(gR, gC, gconn, sol[n]) > 1

\* one edge more or less: degrees change at its two endpoints only, the pairwise test for that pair
\* only, components merge (add) or can only shrink (remove)
ToggleLocal ==
  LET ch == {s \in InteriorSlots(gR, gC) : Bit(gconn, s[1], s[2], s[3]) # Bit(gconn', s[1], s[2], s[3])} IN
  /\ Cardinality(ch) = 1
  /\ LET s == CHOOSE x \in ch : TRUE
         e == SlotEdge(s)
         added == Bit(gconn', s[1], s[2], s[3])
     IN /\ \A a \in GCells : DegreeOf(gR, gC, gconn', a) = DegreeOf(gR, gC, gconn, a) + (IF a \in e THEN (IF added THEN 1 ELSE -1) ELSE 0)
        /\ \A a \in GCells : \A b \in GCells :
             (NodesConnected(gR, gC, gconn', a, b) # NodesConnected(gR, gC, gconn, a, b)) <=> ({a, b} = e)
        /\ \A a \in GCells :
             IF added
               THEN Component(gR, gC, gconn', a) =
                      (IF Component(gR, gC, gconn, a) \cap e # {} THEN UNION {Component(gR, gC, gconn, x) : x \in e} ELSE Component(gR, gC, gconn, a))
               ELSE Component(gR, gC, gconn', a) \subseteq Component(gR, gC, gconn, a)
ToggleProp == [][ToggleLocal]_gvars
==========================================================================
