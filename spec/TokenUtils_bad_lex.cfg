\* deliberately broken / refuted variant: TLC must report a violation of LexerIsDefinition
SPECIFICATION Spec
CONSTANTS
  Machines = {"lex"}
  LexAlphabet = {"(", ")", ",", " ", "0", "1", "9", "a"}
  FullLex = 3
  MaxLex = 5
  SplitAlphabet = {"(", ")", " ", "0", ","}
  MaxSplit = 4
  MaxTB = 4
  FPCoord = "UT"
  Broken = "lex_single_item"
INVARIANTS LexerIsDefinition
CHECK_DEADLOCK FALSE
