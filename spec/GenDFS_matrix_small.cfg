CONSTANTS Shapes <- ShapesSmall
  AccSet <- AccMatrix  DepthSet <- DepthMatrix  ForkSet <- BothBool  RandSet <- BothBool  PercSet <- PercNone
SPECIFICATION Spec
INVARIANT InGridInv
INVARIANT TreeOnVisited
INVARIANT StackInVisited
INVARIANT SpanningWhenDefault
INVARIANT DoneCount
INVARIANT Corridor
INVARIANT MetaTruth
CHECK_DEADLOCK FALSE
