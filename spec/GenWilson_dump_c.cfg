CONSTANTS Shapes <- Shapes3x4
SPECIFICATION Spec
CHECK_DEADLOCK FALSE
