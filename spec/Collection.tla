---------------------------- MODULE Collection ----------------------------
(* C16 -- a dataset collection is exactly the concatenation of its member datasets.

   A collection is abstracted to its vector of member lengths  lens = <<l_0, ..., l_{n-1}>>  (zeros
   allowed anywhere).  Items are named by the pair <<member k, position p>> (both 0-based, as the
   harness logs them by object identity).

   Three INDEPENDENT definitions are written down and model-checked against each other:
     (1) Concat(lens)     the concatenation, by flattening the members in order          (the WHAT)
     (2) the cursor       a state machine walking the collection item by item: Step inside a member,
                          Cross to the next NON-EMPTY member, Finish after the last item  (iteration)
     (3) CodeGet(lens,i)  the index map the way the code does it: cum = accumulate(lens),
                          d = searchsorted(cum, i+1, side=left), subtract cum[d-1] when d > 0, then
                          Python list indexing (negative indices wrap, out of range raises)  (the HOW)
   Deliberately broken variants of (3) are selected by CONSTANTS and must be rejected by TLC:
     SearchArg = "index"  (searchsorted on index instead of index+1)
     Side      = "right"
     Subtract  = "none"   (the local index is not adjusted)
   Two variants are benign twins (TLC proves them equal to the code's map on the scope):
     SearchArg = "index" together with Side = "right"  (the same insertion point), and
     Subtract  = "own"  (subtract cum[d] instead of cum[d-1]): the local index becomes negative and
                        Python's negative list indexing wraps it to exactly the right item.

   The small scope (all length vectors over 0..MaxLen with <= MaxMembers members) is DEFINED here
   (LenVectors) and EMITTED by TLC for the harness (one source of truth). *)
EXTENDS Naturals, Integers, Sequences, FiniteSets, TLC, Json, IOUtils, SequencesExt

CONSTANTS MaxLen, MaxMembers, SearchArg, Side, Subtract

ASSUME SearchArg \in {"index_plus_1", "index"} /\ Side \in {"left", "right"} /\ Subtract \in {"prev", "own", "none"}

--------------------------------------------------------------------------
(* (1) the concatenation *)
RECURSIVE SumSeq(_)
SumSeq(s) == IF s = <<>> THEN 0 ELSE Head(s) + SumSeq(Tail(s))
Total(lens) == SumSeq(lens)

MemberItems(k, n) == [p \in 1..n |-> <<k, p - 1>>]           \* items of member k (0-based) in order
RECURSIVE ConcatFrom(_, _)
ConcatFrom(lens, k) == IF k > Len(lens) THEN <<>> ELSE MemberItems(k - 1, lens[k]) \o ConcatFrom(lens, k + 1)
Concat(lens) == ConcatFrom(lens, 1)

\* the other views the statement mentions
CollLen(lens) == Total(lens)                                   \* len(collection)
DatasetLengths(lens) == lens                                   \* per-member lengths
NMazes(lens) == SumSeq([k \in 1..Len(lens) |-> lens[k]])       \* cfg.n_mazes = sum of the members' counts
Mazes(lens) == Concat(lens)                                    \* flattened maze list

--------------------------------------------------------------------------
(* (3) the index map as the code computes it *)
Cum(lens) == [k \in 1..Len(lens) |-> SumSeq(SubSeq(lens, 1, k))]        \* itertools.accumulate
\* np.searchsorted(a, v, side) on an ascending array: number of entries strictly below v (left) /
\* below or equal v (right) = 0-based insertion point
SearchSorted(a, v, side) == Cardinality({k \in 1..Len(a) : IF side = "left" THEN a[k] < v ELSE a[k] <= v})
\* Python list indexing: seq[j] for a list of length n -> 0-based effective position or -1 (IndexError)
ListIndex(n, j) == IF 0 <= j /\ j < n THEN j ELSE IF 0 - n <= j /\ j < 0 THEN n + j ELSE 0 - 1

Ok(item) == [res |-> "ok", item |-> item]
Raise(e) == [res |-> "raise:" \o e, item |-> <<>>]

CodeGetV(lens, i, searchArg, side, subtract) ==
  LET cum == Cum(lens)
      n == Len(lens)
      v == IF searchArg = "index_plus_1" THEN i + 1 ELSE i
      d == SearchSorted(cum, v, side)                                       \* dataset_idx, 0-based
      subIdx == IF subtract = "prev" THEN d - 1 ELSE d                      \* 0-based entry of cum subtracted
  IN IF d > 0 /\ subtract # "none" /\ ListIndex(n, subIdx) = 0 - 1 THEN Raise("IndexError")   \* numpy index out of bounds
     ELSE LET adj == IF d > 0 /\ subtract # "none" THEN i - cum[ListIndex(n, subIdx) + 1] ELSE i
              m == ListIndex(n, d)                                          \* self.maze_datasets[d]
          IN IF m = 0 - 1 THEN Raise("IndexError")
             ELSE LET p == ListIndex(lens[m + 1], adj)                      \* member.mazes[adj]
                  IN IF p = 0 - 1 THEN Raise("IndexError") ELSE Ok(<<m, p>>)
CodeGet(lens, i) == CodeGetV(lens, i, SearchArg, Side, Subtract)
\* the unmutated code, whatever the model constants say (used by the oracle for Layer M)
CodeGetReal(lens, i) == CodeGetV(lens, i, "index_plus_1", "left", "prev")

--------------------------------------------------------------------------
(* the small scope and its emission *)
LenVectorsOf(maxLen, maxMembers) == UNION {[1..n -> 0..maxLen] : n \in 0..maxMembers}
LenVectors == LenVectorsOf(MaxLen, MaxMembers)
ASSUME ("VERIF_EMIT" \in DOMAIN IOEnv) =>
  ndJsonSerialize(IOEnv.VERIF_EMIT, SetToSeq({[lens |-> v, total |-> Total(v)] : v \in LenVectors}))

--------------------------------------------------------------------------
(* (2) the cursor: walks every collection of the scope from its first item to past its last one *)
VARIABLES lens, i, cur
vars == <<lens, i, cur>>

\* least 1-based member >= k that is not empty (0 if there is none)
NextNonEmpty(ls, k) == LET S == {j \in k..Len(ls) : ls[j] > 0} IN IF S = {} THEN 0 ELSE CHOOSE j \in S : \A j2 \in S : j <= j2

Init == /\ lens \in LenVectors
        /\ i = 0
        /\ cur = IF Total(lens) = 0 THEN <<>> ELSE <<NextNonEmpty(lens, 1) - 1, 0>>
Step   == /\ i + 1 < Total(lens) /\ cur[2] + 1 < lens[cur[1] + 1]
          /\ cur' = <<cur[1], cur[2] + 1>> /\ i' = i + 1 /\ UNCHANGED lens
Cross  == /\ i + 1 < Total(lens) /\ cur[2] + 1 = lens[cur[1] + 1]
          /\ cur' = <<NextNonEmpty(lens, cur[1] + 2) - 1, 0>> /\ i' = i + 1 /\ UNCHANGED lens
Finish == /\ i + 1 = Total(lens)
          /\ cur' = <<>> /\ i' = i + 1 /\ UNCHANGED lens
Next == Step \/ Cross \/ Finish
Spec == Init /\ [][Next]_vars

TypeOK == /\ lens \in LenVectors /\ i \in 0..Total(lens)
          /\ (i < Total(lens)) => (cur[1] \in 0..(Len(lens) - 1) /\ cur[2] \in 0..(lens[cur[1] + 1] - 1))
          /\ (i = Total(lens)) => cur = <<>>
\* (2) = (1): the walk visits the concatenation in order
CursorIsConcat == (i < Total(lens)) => cur = Concat(lens)[i + 1]
\* (3) = (2): the code's index map returns the very item the cursor stands on, for every valid index
GetIsConcat == (i < Total(lens)) => CodeGet(lens, i) = Ok(cur)
\* just past the end the code raises (recorded by the harness, not part of the statement)
EndRaises == (i = Total(lens)) => CodeGet(lens, i).res = "raise:IndexError"
\* length = sum of the members; all views of the count agree
ViewsAgree == /\ Len(Concat(lens)) = Total(lens)
              /\ CollLen(lens) = Total(lens) /\ NMazes(lens) = Total(lens) /\ SumSeq(DatasetLengths(lens)) = Total(lens)
              /\ Len(Mazes(lens)) = CollLen(lens)
              /\ (Len(lens) > 0) => Cum(lens)[Len(lens)] = Total(lens)
\* the flattened list contains every (member, position) exactly once, members in order
ConcatIsBijection ==
  LET c == Concat(lens) IN
  /\ {c[k] : k \in 1..Len(c)} = UNION {{<<m - 1, p - 1>> : p \in 1..lens[m]} : m \in 1..Len(lens)}
  /\ \A a, b \in 1..Len(c) : a < b => (c[a][1] < c[b][1] \/ (c[a][1] = c[b][1] /\ c[a][2] < c[b][2]))
\* SearchSorted is the insertion point that keeps the array sorted
SearchSortedIsInsertionPoint ==
  LET cum == Cum(lens)  j == SearchSorted(cum, i + 1, "left") IN
  /\ \A k \in 1..j : cum[k] < i + 1
  /\ \A k \in (j + 1)..Len(cum) : cum[k] >= i + 1
=========================================================================
