---------------------------- MODULE Collection ----------------------------
(* C16 -- a dataset collection is exactly the concatenation of its member datasets.

   A collection is abstracted to its vector of member lengths  lens = <<l_0, ..., l_{n-1}>>  (zeros
   allowed anywhere).  Items are named by the pair <<member k, position p>> (both 0-based, as the
   harness logs them by object identity).

   Three INDEPENDENT definitions are written down and model-checked against each other:
     (1) Concat(lens)     the concatenation, by flattening the members in order          (the WHAT)
     (2) the cursor       a state machine walking the collection item by item: Step inside a member,
                          Cross to the next NON-EMPTY member, Finish after the last item  (iteration)
     (3) CodeGet(lens,i)  the index map the way the code does it: cum = accumulate(lens),
                          d = searchsorted(cum, i+1, side=left), subtract cum[d-1] when d > 0, then
                          Python list indexing (negative indices wrap, out of range raises)  (the HOW)
   Deliberately broken variants of (3) are selected by CONSTANTS and must be rejected by TLC:
     SearchArg = "index"  (searchsorted on index instead of index+1)
     Side      = "right"
     Subtract  = "none"   (the local index is not adjusted)
   Two variants are benign twins (TLC proves them equal to the code's map on the scope):
     SearchArg = "index" together with Side = "right"  (the same insertion point), and
     Subtract  = "own"  (subtract cum[d] instead of cum[d-1]): the local index becomes negative and
                        Python's negative list indexing wraps it to exactly the right item.

   HISTORIES.  The length vector is a VARIABLE: between reads the members may change length (Mutate:
   mazes appended / removed, a member replaced by a filtered copy, to / from empty) and
   update_self_config() may be called (Update).  The statement is about the CURRENT members: every
   invariant is evaluated in every state of every history.  What the code keeps between calls is
   modelled explicitly:
     cache  the cumulative-length array __getitem__ uses.  CacheCum = "none" is the code (recomputed
            on every call).  CacheCum = "first_use" (kept from the first indexing until Update) is a
            broken variant: TLC must reject it (GetIsConcat after a Mutate).
     mzc    the cached flattened list `.mazes`, built member by member (BuildBegin / BuildMember /
            BuildEnd), a member may fail while it is read (BuildFault), another reader may come in
            during the build (Read).  MazesBuild = "atomic" is the code (cached_property: the list is
            stored only when complete).  MazesBuild = "published" (the cache is assigned first and
            extended in place) is a broken variant: TLC must reject it (MazesNeverTruncated).
   `.mazes` read BEFORE a Mutate stays stale in the real code (cached_property; known, not part of
   the statement): Mutate is therefore only enabled while `.mazes` has not been read, and the
   harness never reads `.mazes` before a mutation.

   The small scope (all length vectors over 0..MaxLen with <= MaxMembers members) is DEFINED here
   (LenVectors) and EMITTED by TLC for the harness (one source of truth). *)
EXTENDS Naturals, Integers, Sequences, FiniteSets, TLC, Json, IOUtils, SequencesExt

CONSTANTS MaxLen, MaxMembers, SearchArg, Side, Subtract, CacheCum, MazesBuild

ASSUME SearchArg \in {"index_plus_1", "index"} /\ Side \in {"left", "right"} /\ Subtract \in {"prev", "own", "none"}
ASSUME CacheCum \in {"none", "first_use"} /\ MazesBuild \in {"atomic", "published"}

--------------------------------------------------------------------------
(* (1) the concatenation *)
RECURSIVE SumSeq(_)
SumSeq(s) == IF s = <<>> THEN 0 ELSE Head(s) + SumSeq(Tail(s))
Total(lens) == SumSeq(lens)

MemberItems(k, n) == [p \in 1..n |-> <<k, p - 1>>]           \* items of member k (0-based) in order
RECURSIVE ConcatFrom(_, _)
ConcatFrom(lens, k) == IF k > Len(lens) THEN <<>> ELSE MemberItems(k - 1, lens[k]) \o ConcatFrom(lens, k + 1)
Concat(lens) == ConcatFrom(lens, 1)

\* the other views the statement mentions
CollLen(lens) == Total(lens)                                   \* len(collection)
DatasetLengths(lens) == lens                                   \* per-member lengths
NMazes(lens) == SumSeq([k \in 1..Len(lens) |-> lens[k]])       \* cfg.n_mazes = sum of the members' counts
Mazes(lens) == Concat(lens)                                    \* flattened maze list

--------------------------------------------------------------------------
(* (3) the index map as the code computes it *)
Cum(lens) == [k \in 1..Len(lens) |-> SumSeq(SubSeq(lens, 1, k))]        \* itertools.accumulate
\* np.searchsorted(a, v, side) on an ascending array: number of entries strictly below v (left) /
\* below or equal v (right) = 0-based insertion point
SearchSorted(a, v, side) == Cardinality({k \in 1..Len(a) : IF side = "left" THEN a[k] < v ELSE a[k] <= v})
\* Python list indexing: seq[j] for a list of length n -> 0-based effective position or -1 (IndexError)
ListIndex(n, j) == IF 0 <= j /\ j < n THEN j ELSE IF 0 - n <= j /\ j < 0 THEN n + j ELSE 0 - 1

Ok(item) == [res |-> "ok", item |-> item]
Raise(e) == [res |-> "raise:" \o e, item |-> <<>>]

\* the index map for a GIVEN cumulative array (which may be stale) over the current members `lens`
CodeGetC(lens, i, cum, searchArg, side, subtract) ==
  LET n == Len(lens)
      v == IF searchArg = "index_plus_1" THEN i + 1 ELSE i
      d == SearchSorted(cum, v, side)                                       \* dataset_idx, 0-based
      subIdx == IF subtract = "prev" THEN d - 1 ELSE d                      \* 0-based entry of cum subtracted
  IN IF d > 0 /\ subtract # "none" /\ ListIndex(Len(cum), subIdx) = 0 - 1 THEN Raise("IndexError")   \* numpy index out of bounds
     ELSE LET adj == IF d > 0 /\ subtract # "none" THEN i - cum[ListIndex(Len(cum), subIdx) + 1] ELSE i
              m == ListIndex(n, d)                                          \* self.maze_datasets[d]
          IN IF m = 0 - 1 THEN Raise("IndexError")
             ELSE LET p == ListIndex(lens[m + 1], adj)                      \* member.mazes[adj]
                  IN IF p = 0 - 1 THEN Raise("IndexError") ELSE Ok(<<m, p>>)
CodeGetV(lens, i, searchArg, side, subtract) == CodeGetC(lens, i, Cum(lens), searchArg, side, subtract)
\* the unmutated code, whatever the model constants say (used by the oracle for Layer M)
CodeGetReal(lens, i) == CodeGetV(lens, i, "index_plus_1", "left", "prev")

--------------------------------------------------------------------------
(* the small scope and its emission *)
LenVectorsOf(maxLen, maxMembers) == UNION {[1..n -> 0..maxLen] : n \in 0..maxMembers}
LenVectors == LenVectorsOf(MaxLen, MaxMembers)
\* one-mutation histories: member k (0-based) of vector lens is set to length n # lens[k]
HistCasesOf(maxLen, maxMembers) ==
  UNION {{[lens |-> v, k |-> x[1] - 1, n |-> x[2]] : x \in {y \in (1..Len(v)) \X (0..maxLen) : y[2] # v[y[1]]}}
           : v \in LenVectorsOf(maxLen, maxMembers)}
ASSUME ("VERIF_EMIT" \in DOMAIN IOEnv) =>
  ndJsonSerialize(IOEnv.VERIF_EMIT, SetToSeq({[lens |-> v, total |-> Total(v)] : v \in LenVectors}))
ASSUME ("VERIF_EMIT_HIST" \in DOMAIN IOEnv) =>
  ndJsonSerialize(IOEnv.VERIF_EMIT_HIST, SetToSeq(HistCasesOf(MaxLen, MaxMembers - 1)))

--------------------------------------------------------------------------
(* (2) the cursor: walks every collection of the scope from its first item to past its last one;
   every state is "the collection is being indexed at i" *)
VARIABLES lens, i, cur,     \* current member lengths, index being read, cursor (item at i, <<>> past the end)
          cache,            \* cumulative array kept by the code between calls (None in the real code)
          mzc, wb, ret      \* cached `.mazes`; progress of the thread building it (0 = idle, k = about to
                            \* read member k, Len+1 = all read); last list RETURNED to any reader
vars == <<lens, i, cur, cache, mzc, wb, ret>>
None == [has |-> FALSE, v |-> <<>>]
Some(x) == [has |-> TRUE, v |-> x]
Published == MazesBuild = "published"

\* least 1-based member >= k that is not empty (0 if there is none)
NextNonEmpty(ls, k) == LET S == {j \in k..Len(ls) : ls[j] > 0} IN IF S = {} THEN 0 ELSE CHOOSE j \in S : \A j2 \in S : j <= j2
First(ls) == IF Total(ls) = 0 THEN <<>> ELSE <<NextNonEmpty(ls, 1) - 1, 0>>

\* the array the read at the current state works with, and what the code keeps of it afterwards
EffCum == IF cache.has THEN cache.v ELSE Cum(lens)
Populate == IF CacheCum = "first_use" /\ ~cache.has THEN Some(Cum(lens)) ELSE cache
CodeGet(ls, j) == CodeGetC(ls, j, EffCum, SearchArg, Side, Subtract)
Indexing == wb = 0 /\ ~mzc.has /\ ~ret.has        \* `.mazes` not touched yet

Init == /\ lens \in LenVectors /\ i = 0 /\ cur = First(lens)
        /\ cache = None /\ mzc = None /\ wb = 0 /\ ret = None
Step   == /\ Indexing /\ i + 1 < Total(lens) /\ cur[2] + 1 < lens[cur[1] + 1]
          /\ cur' = <<cur[1], cur[2] + 1>> /\ i' = i + 1 /\ cache' = Populate /\ UNCHANGED <<lens, mzc, wb, ret>>
Cross  == /\ Indexing /\ i + 1 < Total(lens) /\ cur[2] + 1 = lens[cur[1] + 1]
          /\ cur' = <<NextNonEmpty(lens, cur[1] + 2) - 1, 0>> /\ i' = i + 1 /\ cache' = Populate /\ UNCHANGED <<lens, mzc, wb, ret>>
Finish == /\ Indexing /\ i + 1 = Total(lens)
          /\ cur' = <<>> /\ i' = i + 1 /\ cache' = Populate /\ UNCHANGED <<lens, mzc, wb, ret>>
\* a member changes length (any kind of edit); indexing restarts on the new collection
Mutate(k, n) == /\ Indexing /\ n # lens[k]
                /\ lens' = [lens EXCEPT ![k] = n] /\ i' = 0 /\ cur' = First(lens')
                /\ cache' = Populate /\ UNCHANGED <<mzc, wb, ret>>
MutateAny == \E k \in 1..Len(lens), n \in 0..MaxLen : Mutate(k, n)
\* update_self_config(): whatever the code kept about the member lengths is dropped
Update == /\ Indexing /\ cache.has /\ cache' = None /\ UNCHANGED <<lens, i, cur, mzc, wb, ret>>

\* ---- `.mazes` (only explored from i = 0: independent of the cursor)
BuildBegin  == /\ i = 0 /\ wb = 0 /\ ~mzc.has /\ ~ret.has
               /\ wb' = 1 /\ mzc' = (IF Published THEN Some(<<>>) ELSE mzc) /\ UNCHANGED <<lens, i, cur, cache, ret>>
BuildMember == /\ wb \in 1..Len(lens)
               /\ wb' = wb + 1 /\ mzc' = (IF Published THEN Some(mzc.v \o MemberItems(wb - 1, lens[wb])) ELSE mzc)
               /\ UNCHANGED <<lens, i, cur, cache, ret>>
BuildFault  == /\ wb \in 1..Len(lens)                          \* member wb raises while it is read
               /\ wb' = 0 /\ UNCHANGED <<lens, i, cur, cache, mzc, ret>>
BuildEnd    == /\ wb = Len(lens) + 1
               /\ wb' = 0 /\ mzc' = (IF Published THEN mzc ELSE Some(Concat(lens))) /\ ret' = mzc'
               /\ UNCHANGED <<lens, i, cur, cache>>
\* another reader (second thread during the build, or any later read)
Read        == /\ i = 0 /\ (mzc.has \/ wb > 0)
               /\ IF mzc.has THEN ret' = mzc /\ UNCHANGED mzc
                             ELSE ret' = Some(Concat(lens)) /\ mzc' = ret'      \* builds its own complete list
               /\ UNCHANGED <<lens, i, cur, cache, wb>>
Next == Step \/ Cross \/ Finish \/ MutateAny \/ Update \/ BuildBegin \/ BuildMember \/ BuildFault \/ BuildEnd \/ Read
Spec == Init /\ [][Next]_vars

TypeOK == /\ lens \in LenVectors /\ i \in 0..Total(lens)
          /\ (i < Total(lens)) => (cur[1] \in 0..(Len(lens) - 1) /\ cur[2] \in 0..(lens[cur[1] + 1] - 1))
          /\ (i = Total(lens)) => cur = <<>>
          /\ wb \in 0..(Len(lens) + 1) /\ cache.has \in BOOLEAN /\ mzc.has \in BOOLEAN /\ ret.has \in BOOLEAN
          /\ (CacheCum = "none") => cache = None
\* (2) = (1): the walk visits the concatenation in order
CursorIsConcat == (i < Total(lens)) => cur = Concat(lens)[i + 1]
\* (3) = (2): the code's index map returns the very item the cursor stands on, for every valid index
\* of the CURRENT members, in every state of every history
GetIsConcat == (i < Total(lens)) => CodeGet(lens, i) = Ok(cur)
\* just past the end the code raises (recorded by the harness, not part of the statement)
EndRaises == (i = Total(lens)) => CodeGet(lens, i).res = "raise:IndexError"
\* a list handed to a reader, or left in the cache by a finished / failed build, is the COMPLETE concatenation
MazesNeverTruncated == /\ ret.has => ret.v = Concat(lens)
                       /\ (mzc.has /\ wb = 0) => mzc.v = Concat(lens)
MazesAgreeWithLen == ret.has => Len(ret.v) = CollLen(lens)
\* length = sum of the members; all views of the count agree
ViewsAgree == /\ Len(Concat(lens)) = Total(lens)
              /\ CollLen(lens) = Total(lens) /\ NMazes(lens) = Total(lens) /\ SumSeq(DatasetLengths(lens)) = Total(lens)
              /\ Len(Mazes(lens)) = CollLen(lens)
              /\ (Len(lens) > 0) => Cum(lens)[Len(lens)] = Total(lens)
\* the flattened list contains every (member, position) exactly once, members in order
ConcatIsBijection ==
  LET c == Concat(lens) IN
  /\ {c[k] : k \in 1..Len(c)} = UNION {{<<m - 1, p - 1>> : p \in 1..lens[m]} : m \in 1..Len(lens)}
  /\ \A a, b \in 1..Len(c) : a < b => (c[a][1] < c[b][1] \/ (c[a][1] = c[b][1] /\ c[a][2] < c[b][2]))
\* SearchSorted is the insertion point that keeps the array sorted
SearchSortedIsInsertionPoint ==
  LET cum == Cum(lens)  j == SearchSorted(cum, i + 1, "left") IN
  /\ \A k \in 1..j : cum[k] < i + 1
  /\ \A k \in (j + 1)..Len(cum) : cum[k] >= i + 1
=========================================================================
