---------------------------- MODULE Lattice ----------------------------
(* Common lattice-graph vocabulary used by every other module.

   A connection structure is given in the *raw layout of the implementation*: conn[d][i][j]
   (1-based TLA+ sequences of the 0-based array connection_list[d,i,j]), entries 0/1.
     conn[1][i+1][j+1] = 1  <=>  edge (i,j)-(i+1,j)   ("down",  dim 0)
     conn[2][i+1][j+1] = 1  <=>  edge (i,j)-(i,j+1)   ("right", dim 1)
   The abstraction from the raw array to the graph is written here, in TLA+, not in the harness. *)
EXTENDS Naturals, Integers, Sequences, FiniteSets

Infinity == 999999

Cell(x) == <<x[1], x[2]>>
CellsOf(R, C) == (0..R-1) \X (0..C-1)
InGridCell(R, C, c) == c[1] >= 0 /\ c[1] < R /\ c[2] >= 0 /\ c[2] < C
MinI(a, b) == IF a < b THEN a ELSE b
MaxI(a, b) == IF a > b THEN a ELSE b
AbsI(x) == IF x < 0 THEN 0 - x ELSE x
Manhattan(a, b) == AbsI(a[1] - b[1]) + AbsI(a[2] - b[2])

WellShaped(R, C, conn) ==
  /\ Len(conn) = 2
  /\ \A d \in 1..2 : /\ Len(conn[d]) = R
                     /\ \A i \in 1..R : /\ Len(conn[d][i]) = C
                                        /\ \A j \in 1..C : conn[d][i][j] \in {0, 1}

Bit(conn, d, i, j) == conn[d+1][i+1][j+1] = 1
Slots(R, C) == {0, 1} \X (0..R-1) \X (0..C-1)
SetSlots(R, C, conn) == {s \in Slots(R, C) : Bit(conn, s[1], s[2], s[3])}
\* a slot is interior iff the edge it denotes stays inside the grid
Interior(R, C, s) == IF s[1] = 0 THEN s[2] < R - 1 ELSE s[3] < C - 1
InGrid(R, C, conn) == \A s \in SetSlots(R, C, conn) : Interior(R, C, s)
InteriorSlots(R, C) == {s \in Slots(R, C) : Interior(R, C, s)}
SlotEdge(s) == IF s[1] = 0 THEN {<<s[2], s[3]>>, <<s[2]+1, s[3]>>} ELSE {<<s[2], s[3]>>, <<s[2], s[3]+1>>}
\* slot of the lattice edge a-b: stored at the lesser endpoint
SlotOf(a, b) == IF a[1] # b[1] THEN <<0, MinI(a[1], b[1]), a[2]>> ELSE <<1, a[1], MinI(a[2], b[2])>>

Adjacent(a, b) == Manhattan(a, b) = 1
Nb4(R, C, a) == {b \in {<<a[1]+1, a[2]>>, <<a[1]-1, a[2]>>, <<a[1], a[2]+1>>, <<a[1], a[2]-1>>} : InGridCell(R, C, b)}
\* a, b adjacent in-grid cells: is the edge present?
Linked(conn, a, b) == LET s == SlotOf(a, b) IN Bit(conn, s[1], s[2], s[3])
NbC(R, C, conn, a) == {b \in Nb4(R, C, a) : Linked(conn, a, b)}
Degree(R, C, conn, a) == Cardinality(NbC(R, C, conn, a))
NEdges(R, C, conn) == Cardinality({s \in SetSlots(R, C, conn) : Interior(R, C, s)})

RECURSIVE ReachFrom(_, _, _, _, _)
ReachFrom(R, C, conn, frontier, seen) ==
  IF frontier = {} THEN seen
  ELSE LET nxt == (UNION {NbC(R, C, conn, a) : a \in frontier}) \ seen
       IN ReachFrom(R, C, conn, nxt, seen \cup nxt)
Reach(R, C, conn, a) == ReachFrom(R, C, conn, {a}, {a})

RECURSIVE BfsDist(_, _, _, _, _, _, _)
BfsDist(R, C, conn, frontier, seen, t, d) ==
  IF t \in frontier THEN d
  ELSE IF frontier = {} THEN Infinity
  ELSE LET nxt == (UNION {NbC(R, C, conn, a) : a \in frontier}) \ seen
       IN BfsDist(R, C, conn, nxt, seen \cup nxt, t, d + 1)
Dist(R, C, conn, s, t) == BfsDist(R, C, conn, {s}, {s}, t, 0)

Connected(R, C, conn) == Reach(R, C, conn, <<0, 0>>) = CellsOf(R, C)
IsSpanningTree(R, C, conn) ==
  /\ InGrid(R, C, conn)
  /\ NEdges(R, C, conn) = R * C - 1
  /\ Connected(R, C, conn)
\* tree on a cell set V containing a: exactly |V|-1 edges, all of them inside V, V reachable from a
IsTreeOn(R, C, conn, V, a) ==
  /\ InGrid(R, C, conn)
  /\ NEdges(R, C, conn) = Cardinality(V) - 1
  /\ Reach(R, C, conn, a) = V

\* a path (sequence of cells) walks along existing connections inside the grid
IsWalk(R, C, conn, p) ==
  /\ \A k \in 1..Len(p) : InGridCell(R, C, Cell(p[k]))
  /\ \A k \in 1..(Len(p) - 1) : Adjacent(Cell(p[k]), Cell(p[k+1])) /\ Linked(conn, Cell(p[k]), Cell(p[k+1]))
IsSimple(p) == \A a, b \in 1..Len(p) : a # b => Cell(p[a]) # Cell(p[b])
IsShortestPath(R, C, conn, p, s, t) ==
  /\ Len(p) >= 1 /\ Cell(p[1]) = s /\ Cell(p[Len(p)]) = t
  /\ IsWalk(R, C, conn, p)
  /\ Len(p) - 1 = Dist(R, C, conn, s, t)

\* named shape sets for model configs (cfg files cannot contain tuples)
ShapesTiny  == {<<1,1>>, <<1,2>>, <<2,1>>, <<2,2>>}
ShapesSmall == {<<1,1>>, <<1,2>>, <<2,1>>, <<1,3>>, <<3,1>>, <<2,2>>, <<2,3>>, <<3,2>>}
Shapes3x3   == {<<3,3>>}
ShapesWide  == {<<1,4>>, <<4,1>>, <<2,4>>, <<4,2>>}
Shapes3x4   == {<<3,4>>, <<4,3>>}
Shapes4x4   == {<<4,4>>}
Shapes2x3   == {<<2,3>>, <<3,2>>}
ShapesC19a  == {<<2,2>>, <<2,3>>, <<3,2>>}

\* ---- slot-set view (design specs keep the connection structure as a SET of slots <<d,i,j>>) ----
ConnOfSlots(R, C, S) == [d \in 1..2 |-> [i \in 1..R |-> [j \in 1..C |-> IF <<d-1, i-1, j-1>> \in S THEN 1 ELSE 0]]]
LinkedS(S, a, b) == SlotOf(a, b) \in S
NbS(R, C, S, a) == {b \in Nb4(R, C, a) : SlotOf(a, b) \in S}
RECURSIVE ReachFromS(_, _, _, _, _)
ReachFromS(R, C, S, frontier, seen) ==
  IF frontier = {} THEN seen
  ELSE LET nxt == (UNION {NbS(R, C, S, a) : a \in frontier}) \ seen
       IN ReachFromS(R, C, S, nxt, seen \cup nxt)
ReachS(R, C, S, a) == ReachFromS(R, C, S, {a}, {a})
InGridS(R, C, S) == \A s \in S : s \in Slots(R, C) /\ Interior(R, C, s)
IsTreeOnS(R, C, S, V, a) == InGridS(R, C, S) /\ Cardinality(S) = Cardinality(V) - 1 /\ ReachS(R, C, S, a) = V
IsSpanningTreeS(R, C, S) == IsTreeOnS(R, C, S, CellsOf(R, C), <<0, 0>>)
DegS(R, C, S, a) == Cardinality(NbS(R, C, S, a))
\* where _random_start_coord can put the start: randint(0, max(shape-1, 1)) per axis
StartRange(R, C) == (0..MaxI(R - 2, 0)) \X (0..MaxI(C - 2, 0))
RemoveIdx(q, i) == SubSeq(q, 1, i - 1) \o SubSeq(q, i + 1, Len(q))

SeqToSet(q) == {q[k] : k \in 1..Len(q)}
CellSet(q) == {Cell(q[k]) : k \in 1..Len(q)}
=======================================================================
