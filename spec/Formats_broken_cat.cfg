CONSTANTS MaxMazes = 4
          MaxLen = 4
          MaxMembers = 2
          Broken = TRUE
          BrokenLoader = "cat"
SPECIFICATION Spec
INVARIANT RoundTrip
CHECK_DEADLOCK FALSE
