--------------------------- MODULE Trace_GenDFS ---------------------------
(* Use (C), step level (Layer M): loop-head snapshots of real gen_dfs / gen_prim executions are
   matched against GenDFS!Iter.  Batched (tid = trace, l = position).  Each snapshot is the full
   projected state (stack, visited, connection slots, depth), so the search is linear. *)
EXTENDS GenDFS, Json, IOUtils, SequencesExt
Log == ndJsonDeserialize(IOEnv.VERIF_LOG)
VARIABLES tid, l, bad
tvars == <<gvars, tid, l, bad>>
T == Log[tid]
SnapStack(sn) == [k \in 1..Len(sn.stack) |-> Cell(sn.stack[k])]
SnapSlots(sn) == {<<x[1], x[2], x[3]>> : x \in SeqToSet(sn.slots)}
Matches(i, n, sn) ==
  /\ CanIter(i, n)
  /\ NextStack(i, n) = SnapStack(sn) /\ NextVisited(i, n) = CellSet(sn.vis)
  /\ NextSlots(i, n) = SnapSlots(sn) /\ NextDepth(i, n) = sn.depth
Explained(sn) == \E i \in 1..Len(stack) : \E n \in Nb4(R, C, stack[i]) \cup {stack[i]} : Matches(i, n, sn)
Load(k) ==
  IF k <= Len(Log) THEN
    LET u == Log[k] IN
    /\ R' = u.R /\ C' = u.C /\ start' = Cell(u.start) /\ acc' = u.acc /\ maxd' = u.maxd
    /\ forks' = u.forks /\ rnd' = u.rnd /\ perc' = "none"
    /\ visited' = {Cell(u.start)} /\ slots' = {} /\ stack' = <<Cell(u.start)>> /\ depth' = 1 /\ phase' = "loop"
    /\ metaVisited' = {} /\ metaFully' = FALSE
  ELSE UNCHANGED gvars
TInit == /\ tid = 1 /\ l = 1 /\ bad = {}
         /\ LET u == Log[1] IN GInit(u.R, u.C, Cell(u.start), u.acc, u.maxd, u.forks, u.rnd, "none")
Verdict(cs) == IF cs = {} THEN bad ELSE bad \cup {[id |-> T.id, c |-> cs]}
SameAsState(sn) == SnapStack(sn) = stack /\ CellSet(sn.vis) = visited /\ SnapSlots(sn) = slots /\ sn.depth = depth
\* the first snapshot must be the initial state
TBadInit == /\ tid <= Len(Log) /\ l = 1 /\ ~SameAsState(T.snaps[1])
            /\ bad' = Verdict({"M:initial_state_differs"}) /\ tid' = tid + 1 /\ l' = 1 /\ Load(tid + 1)
TStep ==
  /\ tid <= Len(Log) /\ l < Len(T.snaps) /\ (l = 1 => SameAsState(T.snaps[1]))
  /\ \E i \in 1..Len(stack) : \E n \in Nb4(R, C, stack[i]) \cup {stack[i]} : Matches(i, n, T.snaps[l+1]) /\ Iter(i, n)
  /\ l' = l + 1 /\ UNCHANGED <<tid, bad>>
TDiverge ==
  /\ tid <= Len(Log) /\ l < Len(T.snaps) /\ (l = 1 => SameAsState(T.snaps[1]))
  /\ ~Explained(T.snaps[l+1])
  /\ bad' = Verdict({"M:step_not_explained"}) /\ tid' = tid + 1 /\ l' = 1 /\ Load(tid + 1)
TFinish ==
  /\ tid <= Len(Log) /\ l = Len(T.snaps) /\ (l = 1 => SameAsState(T.snaps[1]))
  /\ bad' = Verdict((IF LoopGuard THEN {"M:loop_left_early"} ELSE {})
                    \cup (IF SetSlots(R, C, T.conn) = slots THEN {} ELSE {"M:returned_array_differs_from_model"})
                    \cup (IF CellSet(T.m_vis) = visited THEN {} ELSE {"M:meta_visited_differs_from_model"})
                    \cup (IF T.m_fully = (Cardinality(visited) = R * C) THEN {} ELSE {"M:meta_fully_differs_from_model"}))
  /\ tid' = tid + 1 /\ l' = 1 /\ Load(tid + 1)
TNext == TBadInit \/ TStep \/ TDiverge \/ TFinish
TSpec == TInit /\ [][TNext]_tvars
Done == (tid = Len(Log) + 1) =>
          ndJsonSerialize(IOEnv.VERIF_OUT, <<[id |-> -1, c |-> {ToString(Len(Log))}]>> \o SetToSeq(bad))
===========================================================================
