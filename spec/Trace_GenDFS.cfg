CONSTANTS Shapes <- ShapesTiny
  AccSet <- AccDefault  DepthSet <- DepthDefault  ForkSet <- ForkDefault  RandSet <- BothBool  PercSet <- PercNone
SPECIFICATION TSpec
INVARIANT Done
CHECK_DEADLOCK FALSE
