SPECIFICATION Spec
CONSTANTS
  MaxLen = 3
  MaxMembers = 4
  SearchArg = "index_plus_1"
  Side = "left"
  Subtract = "prev"
  CacheCum = "none"
  MazesBuild = "published"
INVARIANTS TypeOK MazesNeverTruncated
CHECK_DEADLOCK FALSE
