CONSTANTS DShapes <- ShapesAdjQuick
CONSTANTS DPathShapes <- ShapesPathQuick
CONSTANTS DCoords <- CoordsRep
CONSTANTS MaxShuffle = 3
CONSTANTS DBug = "none"
SPECIFICATION Spec
INVARIANT AcceptsEveryShuffle
INVARIANT DecodesToTheMaze
INVARIANT AdjInVocab
INVARIANT RejectsOtherMazes
INVARIANT RejectsSingleChange
INVARIANT PathChains
INVARIANT PathInVocab
INVARIANT SinglesDetermineSolution
CHECK_DEADLOCK FALSE
