------------------------------ MODULE Endpoints ------------------------------
(* LatticeMaze.generate_random_path: choice of start and end inside the connected component, with the
   endpoint options.  Branch structure as coded:
     default branch (no allowed sets, no dead-end flags): two DIFFERENT cells of the component
       (np.random.choice(len, size = 2, replace = False); raises ValueError when the component has one cell);
     special branch: allowed sets are intersected with the component, dead-end flags keep only cells of
       degree 1, empty set -> ValueError; start drawn; endpoints_not_equal discards it from the end set;
       end drawn (np.random.randint(0, 0) raises ValueError when nothing is left).
   The path returned is a shortest path start -> end (C02).  Random draws are action parameters. *)
EXTENDS Lattice, TLC
CONSTANTS Shapes
VARIABLES R, C, slots, comp,               \* the maze and the component endpoints are drawn from
          aS, aE,                          \* allowed_start / allowed_end: "none" or a set of cells
          deS, deE, neq,                   \* deadend_start, deadend_end, endpoints_not_equal
          phase, startSet, endSet, s, e
evars == <<R, C, slots, comp, aS, aE, deS, deE, neq, phase, startSet, endSet, s, e>>
NoneSet == {<<-1, -1>>}                    \* stands for None (TLC cannot compare a string with a set)
Cells == CellsOf(R, C)
IsDefault == aS = NoneSet /\ aE = NoneSet /\ ~deS /\ ~deE
DeadEnd(c) == DegS(R, C, slots, c) = 1
\* allowed sets offered in Init: None, one cell, two cells, a cell outside the component
AllowedChoices(r, c, cmp) ==
  {NoneSet} \cup {{x} : x \in CellsOf(r, c)} \cup {{x, y} : x, y \in cmp}
Init == \E sh \in Shapes : \E S \in SUBSET InteriorSlots(sh[1], sh[2]) : \E c0 \in CellsOf(sh[1], sh[2]) :
          /\ R = sh[1] /\ C = sh[2] /\ slots = S /\ comp = ReachS(sh[1], sh[2], S, c0)
          /\ aS \in AllowedChoices(sh[1], sh[2], comp) /\ aE \in AllowedChoices(sh[1], sh[2], comp)
          /\ deS \in BOOLEAN /\ deE \in BOOLEAN /\ neq \in BOOLEAN
          /\ phase = "start" /\ startSet = {} /\ endSet = {} /\ s = <<-1, -1>> /\ e = <<-1, -1>>
Keep == UNCHANGED <<R, C, slots, comp, aS, aE, deS, deE, neq>>
DefaultPick(a, b) ==
  /\ phase = "start" /\ IsDefault /\ a \in comp /\ b \in comp /\ a # b
  /\ s' = a /\ e' = b /\ phase' = "done" /\ UNCHANGED <<startSet, endSet>> /\ Keep
DefaultRaise ==
  /\ phase = "start" /\ IsDefault /\ Cardinality(comp) < 2
  /\ phase' = "raise" /\ UNCHANGED <<startSet, endSet, s, e>> /\ Keep
ComputeSets ==
  /\ phase = "start" /\ ~IsDefault
  /\ LET s0 == IF aS = NoneSet THEN comp ELSE aS \cap comp
         e0 == IF aE = NoneSet THEN comp ELSE aE \cap comp
         s1 == IF deS THEN {x \in s0 : DeadEnd(x)} ELSE s0
         e1 == IF deE THEN {x \in e0 : DeadEnd(x)} ELSE e0
     IN /\ startSet' = s1 /\ endSet' = e1
        /\ phase' = (IF s1 = {} \/ e1 = {} THEN "raise" ELSE "pickS")
  /\ UNCHANGED <<s, e>> /\ Keep
PickS(a) ==
  /\ phase = "pickS" /\ a \in startSet /\ s' = a
  /\ endSet' = (IF neq THEN endSet \ {a} ELSE endSet)
  /\ phase' = (IF endSet' = {} THEN "raise" ELSE "pickE") /\ UNCHANGED <<startSet, e>> /\ Keep
PickE(b) ==
  /\ phase = "pickE" /\ b \in endSet /\ e' = b /\ phase' = "done" /\ UNCHANGED <<startSet, endSet, s>> /\ Keep
DefaultAny == phase = "start" /\ IsDefault /\ \E a, b \in comp : DefaultPick(a, b)
PickSAny == phase = "pickS" /\ \E a \in startSet : PickS(a)
PickEAny == phase = "pickE" /\ \E b \in endSet : PickE(b)
Next == DefaultAny \/ DefaultRaise \/ ComputeSets \/ PickSAny \/ PickEAny
Spec == Init /\ [][Next]_evars
\* ------------------------------------------------------------------- what C03 promises about endpoints
Honoured == phase = "done" =>
  /\ s \in comp /\ e \in comp
  /\ ReachS(R, C, slots, s) = comp                      \* mutually reachable: a solution exists
  /\ (aS # NoneSet => s \in aS) /\ (aE # NoneSet => e \in aE)
  /\ (deS => DeadEnd(s)) /\ (deE => DeadEnd(e))
  /\ (neq => s # e) /\ (IsDefault => s # e)
\* the documented ValueError happens only when there really is no admissible pair
RaiseJustified == phase = "raise" =>
  \/ (IsDefault /\ Cardinality(comp) < 2)
  \/ (~IsDefault /\ ~ \E a \in comp, b \in comp :
        /\ (aS # NoneSet => a \in aS) /\ (aE # NoneSet => b \in aE)
        /\ (deS => DeadEnd(a)) /\ (deE => DeadEnd(b)) /\ (neq => a # b))
  \/ (~IsDefault /\ neq /\ endSet = {})                \* the drawn start was the only admissible end
==============================================================================
