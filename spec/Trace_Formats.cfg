CONSTANTS MaxMazes = 1
          MaxLen = 1
          MaxMembers = 1
          Broken = FALSE
          BrokenLoader = "pad"
SPECIFICATION TSpec
INVARIANT Done
CHECK_DEADLOCK FALSE
