CONSTANTS Shapes <- ShapesC20Deep
CONSTANTS ULs <- ULsDeep
CONSTANTS TransposeCoord = FALSE
CONSTANTS SwapStripIndex = FALSE
CONSTANTS HackInBothBranches = FALSE
CONSTANTS Deep = TRUE
SPECIFICATION Spec
INVARIANT Partition
INVARIANT StripBijection
INVARIANT CoordCentre
INVARIANT StripIndexing
INVARIANT PaintsInside
INVARIANT Faithful
INVARIANT ModelCovers
INVARIANT Determined
INVARIANT RleAgrees
CHECK_DEADLOCK FALSE
