SPECIFICATION Spec
CONSTANTS
  Shapes <- ScopeTiny
  OtherShapes <- ScopeOther
  HashVariant = "rep_dependent"
  Parts = {"pairs"}
INVARIANTS LabelSound ScopeWellFormed EqLaws HashConsistent CtorSound DsSound
CHECK_DEADLOCK FALSE
