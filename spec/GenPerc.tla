------------------------------ MODULE GenPerc ------------------------------
(* LatticeMazeGenerators.gen_percolation: one coin per slot of the (2, R, C) array (rand < p),
   then _fill_edges_with_walls clears the last row of dim 0 and the last column of dim 1, then the
   component of start_coord is recorded as visited_cells.  Three steps = three actions. *)
EXTENDS Lattice, TLC
CONSTANTS Shapes, PKinds        \* PKinds \subseteq {"zero", "mid", "one"}
VARIABLES R, C, start, pk, slots, metaVisited, phase
pvars == <<R, C, start, pk, slots, metaVisited, phase>>
PAll == {"zero", "mid", "one"}
Init == \E sh \in Shapes : \E s0 \in CellsOf(sh[1], sh[2]) : \E k \in PKinds :
          /\ R = sh[1] /\ C = sh[2] /\ start = s0 /\ pk = k
          /\ slots = {} /\ metaVisited = {} /\ phase = "coins"
Coins(coin) ==
  /\ phase = "coins" /\ coin \subseteq Slots(R, C)
  /\ slots' = coin /\ phase' = "fill" /\ UNCHANGED <<R, C, start, pk, metaVisited>>
CoinsAny == /\ phase = "coins"
            /\ \E coin \in (IF pk = "zero" THEN {{}} ELSE IF pk = "one" THEN {Slots(R, C)} ELSE SUBSET Slots(R, C)) : Coins(coin)
FillEdges == /\ phase = "fill" /\ slots' = slots \cap InteriorSlots(R, C) /\ phase' = "comp"
             /\ UNCHANGED <<R, C, start, pk, metaVisited>>
Component == /\ phase = "comp" /\ metaVisited' = ReachS(R, C, slots, start) /\ phase' = "done"
             /\ UNCHANGED <<R, C, start, pk, slots>>
Next == CoinsAny \/ FillEdges \/ Component
Spec == Init /\ [][Next]_pvars
InGridWhenDone == phase \in {"comp", "done"} => InGridS(R, C, slots)
Extremes == phase = "done" => (pk = "zero" => slots = {}) /\ (pk = "one" => slots = InteriorSlots(R, C))
MetaTruth == phase = "done" => metaVisited = ReachS(R, C, slots, start) /\ start \in metaVisited
============================================================================
