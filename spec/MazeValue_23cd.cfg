SPECIFICATION Spec
CONSTANTS
  Shapes <- Scope23
  OtherShapes <- ScopeOther
  HashVariant = "conn_sol"
  Parts = {"ctor", "ds"}
INVARIANTS LabelSound ScopeWellFormed EqLaws HashConsistent CtorSound DsSound
CHECK_DEADLOCK FALSE
