--------------------------- MODULE Trace_TokMod ---------------------------
(* Use (C) for C06: every record is one observation of the real tokenizer,
     [id, level, res, tok (parameter record read off the object's fields, + its name), maze (raw), tokens]
   level = "full"  tokens = MazeTokenizerModular.to_tokens(maze)             (whole prompt)
           "adj"   tokens = adj_list_tokenizer.to_tokens(maze, coord_tokenizer)   (adjacency region only)
           "path"  tokens = path_tokenizer.to_tokens(maze, coord_tokenizer)       (path region only)
   The verdict is computed by TokMod's decoder/encoder, configured only from r.tok and the grid shape.
   Layer P clauses: token_not_in_vocabulary, region_delimiter_count, region_order, adj_* , origin,
   target, path, raises.  Layer M: "M:unsupported_parameters" (record outside the quantifier);
   "M:argument_modified" (optional field argmod = TRUE: the call changed the caller's maze object - the
   statement speaks about the token stream only; r.maze is always the maze as it was BEFORE the call);
   every clause of a record with the optional field scope = "M" (input outside the statement's quantifier,
   e.g. a grid side of 1 or a non-boolean connection list) is reported with the prefix "M:". *)
EXTENDS TokMod, Json
Log == ndJsonDeserialize(IOEnv.VERIF_LOG)

\* inverse coordinate tables large enough for every maze of this log (built once)
NMax == LET ds == {MaxDim(Log[k].maze.R, Log[k].maze.C) : k \in 1..Len(Log)} IN
        IF ds = {} THEN 1 ELSE CHOOSE d \in ds : \A e \in ds : e <= d
Inv == InvTables(IF NMax > VMaxGrid THEN VMaxGrid ELSE NMax)

Supported(r) == /\ SupportedCoord(r.tok.coord)
                /\ (r.level \in {"full", "adj"} => SupportedAdj(r.tok.adj))
                /\ (r.level \in {"full", "path"} => SupportedPath(r.tok.path))
                /\ (r.level = "full" => r.tok.seq \in {"AOTP", "AOP"} /\ r.tok.target.cls = "Unlabeled")
Representable(r) ==
  /\ CoordsRepresentable(r.tok.coord, r.maze.R, r.maze.C)
  /\ ((r.level \in {"full", "path"} /\ r.maze.kind = "SolvedMaze")
        => PathRepresentable(r.tok.path, r.maze.R, r.maze.C, r.maze.conn, CellSeq(r.maze.sol)))

BaseClauses(r) ==
  LET t == r.tok   m == r.maze   q == r.tokens IN
  IF ~Supported(r) THEN {"M:unsupported_parameters"}
  ELSE IF r.res # "ok" THEN (IF Representable(r) THEN {"raises"} ELSE {})
  ELSE VocabClauses(q)
       \cup (IF r.level = "full" THEN PromptClauses(t, Inv, m, q)
             ELSE IF r.level = "adj" THEN AdjClauses(t.coord, t.adj, Inv, m.R, m.C, m.conn, q)
             ELSE (IF q = PathToks(t.coord, t.path, m.R, m.C, m.conn, CellSeq(m.sol)) THEN {} ELSE {"path"}))

\* optional fields (absent in most records): argmod, scope
LayerMNames == {"M:unsupported_parameters", "M:argument_modified"}
AsLayerM(c) == IF c \in LayerMNames THEN c ELSE "M:" \o c
Clauses(r) ==
  LET b == BaseClauses(r)
           \cup (IF "argmod" \in DOMAIN r /\ r.argmod THEN {"M:argument_modified"} ELSE {})
  IN IF "scope" \in DOMAIN r /\ r.scope = "M" THEN {AsLayerM(c) : c \in b} ELSE b

VARIABLES l, bad
tvars == <<l, bad, dvars>>
Idle == dphase = "trace" /\ dct = 0 /\ dat = 0 /\ dpt = 0 /\ dm = 0 /\ dtodo = {} /\ dout = <<>> /\ dcanon = TRUE
TInit == l = 1 /\ bad = {} /\ Idle
TNext == /\ l <= Len(Log) /\ l' = l + 1
         /\ bad' = bad \cup (LET cs == Clauses(Log[l]) IN IF cs = {} THEN {} ELSE {[id |-> Log[l].id, c |-> cs]})
         /\ UNCHANGED dvars
TSpec == TInit /\ [][TNext]_tvars
Done == (l = Len(Log) + 1) =>
          ndJsonSerialize(IOEnv.VERIF_OUT, <<[id |-> -1, c |-> {ToString(Len(Log))}]>> \o SetToSeq(bad))
===========================================================================
