----------------------------- MODULE Trace_Cache -----------------------------
(* Use (B)+(C) for C11: fault-injection scenarios on REAL cache files, each followed by a real from_config
   request whose steps were observed (interposed read / generate / save); the request is replayed through the
   ACTIONS of Cache.tla (Layer M) and its outcome judged by the property (Layer P).
   record: [id, fault ("none" | "absent" | "damage" | "corrupt" | "foreign" | "nfield"),
            read ("none" | "ok" | "fail"), generated, saved (BOOLEAN), outcome ("data" | "raise:<Type>"),
            dig, ref (per-maze digests returned / of a fresh generation of the requested config),
            after_ok (BOOLEAN: afterwards the file loads and holds exactly the reference mazes),
            second_ok (BOOLEAN: a second, warm request returns the reference mazes)]
   fault = "damage": truncation, empty file, directory, interrupted save; "corrupt": one byte changed (the
   container may or may not notice: the observed read result tells which); "foreign": a loadable file of a
   configuration differing in some field other than n_mazes; "nfield": differing only in n_mazes. *)
EXTENDS Cache, Json, IOUtils, SequencesExt
Log == ndJsonDeserialize(IOEnv.VERIF_LOG)
VARIABLES tid, st, bad
tvars == <<cvars, tid, st, bad>>
T == Log[tid]
Verdict(cs) == IF cs = {} THEN bad ELSE bad \cup {[id |-> T.id, c |-> cs]}
FileFor(u) == CASE u.fault = "none" -> Intact("c1")
                [] u.fault = "nfield" -> Intact("c1")
                [] u.fault = "absent" -> Absent
                [] u.fault = "damage" -> Damaged
                [] u.fault = "corrupt" -> (IF u.read = "ok" THEN Intact("c1") ELSE Damaged)
                [] u.fault = "foreign" -> Intact("c2")
Load(k) == IF k <= Len(Log) THEN
             /\ file' = [c \in Cfgs |-> IF c = "c1" THEN FileFor(Log[k]) ELSE Absent]
             /\ pc' = "idle" /\ req' = "c1" /\ out' = "c1" /\ loaded' = FALSE /\ wr' = 0 /\ hist' = <<>> /\ faults' = 0 /\ nreq' = 0
           ELSE UNCHANGED cvars
TInit == /\ tid = 1 /\ st = 0 /\ bad = {}
         /\ file = [c \in Cfgs |-> IF c = "c1" THEN FileFor(Log[1]) ELSE Absent]
         /\ pc = "idle" /\ req = "c1" /\ out = "c1" /\ loaded = FALSE /\ wr = 0 /\ hist = <<>> /\ faults = 0 /\ nreq = 0
Live == tid <= Len(Log)
Keep == UNCHANGED <<tid, bad>> /\ st' = st + 1
\* the model's next step, guarded by what was observed
TBegin == Live /\ pc = "idle" /\ st = 0 /\ Begin("c1") /\ Keep
TExists == Live /\ Exists /\ (pc' = "read") = (T.read # "none") /\ Keep
TRead == Live /\ Read /\ (pc' = "diff") = (T.read = "ok") /\ Keep
TGen == Live /\ T.generated /\ GenData /\ Keep
TDiff == Live /\ Diff /\ (pc' = "save") = T.saved /\ (pc' = "idle") = (T.outcome # "data") /\ Keep
TWrite == Live /\ T.saved /\ Write /\ Keep
TReturn == Live /\ T.outcome = "data" /\ Return /\ Keep
Explained == ENABLED TBegin \/ ENABLED TExists \/ ENABLED TRead \/ ENABLED TGen \/ ENABLED TDiff \/ ENABLED TWrite \/ ENABLED TReturn
PClauses(u) ==
     (IF u.outcome = "data" /\ u.dig # u.ref THEN {"returned_data_is_not_the_requested_dataset"} ELSE {})
  \cup (IF u.outcome # "data" /\ u.fault # "foreign" THEN {"request_raised_instead_of_regenerating"} ELSE {})
  \cup (IF u.outcome = "data" /\ ~u.after_ok THEN {"no_loadable_file_with_the_requested_data_left_behind"} ELSE {})
  \cup (IF u.outcome = "data" /\ ~u.second_ok THEN {"second_request_returns_other_data"} ELSE {})
\* the request is over in the model (pc back to idle after at least Begin): judge and load the next scenario
TFinish == /\ Live /\ st > 0 /\ pc = "idle"
           /\ bad' = Verdict(PClauses(T) \cup (IF (T.outcome = "data") = (Len(hist) = 1 /\ hist[1].kind = "data") THEN {} ELSE {"M:outcome_differs_from_model"}))
           /\ tid' = tid + 1 /\ st' = 0 /\ Load(tid + 1)
TDiverge == /\ Live /\ ~(st > 0 /\ pc = "idle") /\ ~Explained
            /\ bad' = Verdict(PClauses(T) \cup {"M:request_steps_not_explained_by_Cache"})
            /\ tid' = tid + 1 /\ st' = 0 /\ Load(tid + 1)
TNext == TBegin \/ TExists \/ TRead \/ TGen \/ TDiff \/ TWrite \/ TReturn \/ TFinish \/ TDiverge
TSpec == TInit /\ [][TNext]_tvars
Done == (tid = Len(Log) + 1) =>
          ndJsonSerialize(IOEnv.VERIF_OUT, <<[id |-> -1, c |-> {ToString(Len(Log))}]>> \o SetToSeq(bad))
==============================================================================
