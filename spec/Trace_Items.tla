----------------------------- MODULE Trace_Items -----------------------------
EXTENDS SolvedOracle, Json, IOUtils, SequencesExt
Log == ndJsonDeserialize(IOEnv.VERIF_LOG)
VARIABLES l, bad
Init == l = 1 /\ bad = {}
Next == /\ l <= Len(Log) /\ l' = l + 1
        /\ bad' = bad \cup (LET cs == Clauses(Log[l]) IN IF cs = {} THEN {} ELSE {[id |-> Log[l].id, c |-> cs]})
Spec == Init /\ [][Next]_<<l, bad>>
Done == (l = Len(Log) + 1) =>
          ndJsonSerialize(IOEnv.VERIF_OUT, <<[id |-> -1, c |-> {ToString(Len(Log))}]>> \o SetToSeq(bad))
==============================================================================
