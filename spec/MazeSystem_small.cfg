CONSTANTS Bases <- BasesAB  Filters <- FiltersPT  Paths <- PathsXY
  MaxFl = 2  MaxHandles = 4  MaxColls = 2  MaxOps = 5  KeyIncludesFilters = TRUE
SPECIFICATION Spec
VIEW NoHist
INVARIANT ConfigTellsTheTruth
INVARIANT FilesTellTheTruth
INVARIANT CollectionsTellTheTruth
INVARIANT NoMismatch
CHECK_DEADLOCK FALSE
