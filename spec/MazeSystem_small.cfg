CONSTANTS Bases <- BasesAB  Filters <- FiltersPT  Paths <- PathsXY
  MaxFl = 2  MaxHandles = 4  MaxOps = 5  KeyIncludesFilters = TRUE
SPECIFICATION Spec
VIEW NoHist
INVARIANT ConfigTellsTheTruth
INVARIANT FilesTellTheTruth
INVARIANT NoMismatch
CHECK_DEADLOCK FALSE
