CONSTANTS Seeds <- Seeds12  Cfgs <- CfgsAB  SeedOf <- SeedMap  UsesPy <- PyMap  NFilters <- FilterMap
  K = 2  MaxSteps = 5  ReseedOnCopy = TRUE
SPECIFICATION Spec
INVARIANT EmitAtHorizon
CHECK_DEADLOCK FALSE
