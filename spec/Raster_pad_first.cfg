CONSTANTS Shapes <- ShapesTiny
CONSTANTS Variant = "pad_first"
SPECIFICATION Spec
INVARIANT ExtendShape
CHECK_DEADLOCK FALSE
