--------------------------- MODULE Trace_TokSpace ---------------------------
(* Use (C) for C15: observations of the real tokenizer-configuration space are judged against
   TokSpace.tla.  One ndjson record per observation, r.kind selects the clause group.  A configuration
   (cfg) is the RAW field dump of a real object: {"cls": <class name>, <dataclass field>: value | cfg |
   [cfg...]} (the hidden `_type_` field left out); the driver only guarantees the JSON typing (Boolean
   fields Boolean, ordinals integer), every judgement about it is made here.

   kind = "enum"      {K, via, vf_intact, res, typed, names, cfgs, hashes}
                      list(all_instances(<abstract class of family K>, DEFAULT_VALIDATION_FUNCS)): name, cfg and
                      hash() of every yielded instance, in order.  via = how the validity rules were handed over (the
                      library's frozendict positionally | the caller's own plain dict by keyword, second enumeration of
                      the family in the process); vf_intact = the call left that mapping as it was
   kind = "raw"       {K, cfg, name, valid, in_enum}
                      one instance of all_instances(<class>, None) (NO validation): its name, the verdict of
                      MazeTokenizerModular.is_valid() on the default tokenizer with this element put in
                      ("T" | "F" | "raise:<Exc>"), and whether the validated enumeration yielded an equal element
   kind = "rawcount"  {K, via, n}         number of instances of the unvalidated enumeration (via = None | an EMPTY mapping
                      of validation functions, positional / keyword)
   kind = "untyped"   {K, repr}           an instance whose field dump is not JSON-typed as the space requires
   kind = "io"        {via, cfg, name, hash, res, eq, name2, hash2, typed2, cfg2, arg_intact}
                      save then load (via = "serialize" | "json" | "zanj" | "reload"): the loaded object
                      compared by ==, by name, by hash and by its raw field dump; "reload" = the same serialized dict
                      loaded twice, then overwritten in place, then the second loaded object read; arg_intact = the
                      first load left the dict equal to a deep snapshot taken before
   kind = "tok"       {enumerated, cfg, name, hash, b64, valid, legacy, twin_eq, twin_name, twin_hash, procs}
                      one complete tokenizer; twin = an independently constructed equal tokenizer of the same
                      process; procs = [{seed, res, name, hash, b64}] the same configuration built in other
                      interpreter processes (different PYTHONHASHSEED)
   kind = "distinct"  {scope, names, hashes, b64s}    names / hashes of a set of pairwise different configurations
   kind = "space"     {scope, res, n_items, n_distinct_names, n_hashed, n_distinct_hashes, n_spec, n_missing, n_extra,
                       n_invalid, n_unstable}      (n_hashed = members whose hash() was taken: all in thorough, every 4th in quick)
                      counts over a whole enumerated scope ("full" = get_all_tokenizers(), "AOP"/"AOTP" = one
                      prompt-sequencer class): the driver counts (the sets are too large for TLC), n_missing /
                      n_extra compare the real name set with the product composed from the names TLC emitted
                      (-1 = not evaluated in this tier)
   kind = "legacy"    {via, mode, res, cfg, name, self_reports}     from_legacy(mode) and its is_legacy_equivalent()
   kind = "legacyset" {scope, full, images, claimed}  claimed = cfgs of every tokenizer of the scope whose
                      is_legacy_equivalent() is True; images = cfgs of from_legacy(m) for the three modes

   kind = "use"       {src, cfg, res, name, hash, b64, uses, n_used_ok, name_used, hash_used, b64_used,
                       twin_eq, twin_name, twin_hash, load_res, load_eq, load_name}
                      HISTORY of one tokenizer object: name / hash() / hash_b64() when fresh, then it tokenizes a
                      solved, a targeted and a plain maze (to_tokens and maze.as_tokens; outcomes in `uses`), then
                      name / hash again; twin = an equal tokenizer built AFTER the use; load = the USED tokenizer
                      serialised to JSON text and loaded
   kind = "history"   {res, calls, images, before_n, before_images, after_n, after_images, same_members,
                       after_missing, after_extra, after_distinct}
                      HISTORY of the enumeration inside one process: get_all_tokenizers() observed, then every public
                      helper of all_tokenizers.py that consumes it is called (calls = [{call, res, ...}]), then it is
                      observed again: size, membership of the from_legacy images (by ==), same_members = the list is
                      still the same sequence of objects; otherwise its name set is compared with the spec product
                      again (after_missing / after_extra / after_distinct, -1 = not needed)

   Layer P = the statement (names below without prefix).  Layer M ("M:"): facts of the MODEL that the
   statement does not demand -- hash() of a single ELEMENT (the statement speaks of tokenizers), the
   identity of the legacy images, the size of the unvalidated parameter space. *)
EXTENDS Integers, Sequences, FiniteSets, TLC, Json, IOUtils, SequencesExt
VARIABLES l, bad
\* the real validity rules; the design module's cursor `fam` is bound to a state variable so that TLC does not
\* pre-evaluate the design-level invariants (they are checked by TokSpace_small.cfg, not here)
INSTANCE TokSpace WITH AdmitPre <- FALSE, fam <- l
Log == ndJsonDeserialize(IOEnv.VERIF_LOG)

Distinct(s) == Cardinality(ToSet(s)) = Len(s)
TF(b) == IF b THEN "T" ELSE "F"

EnumClauses(r) ==
  IF r.res # "ok" THEN {"enumeration_raises"}
  ELSE IF ~r.typed THEN {"config_outside_parameter_space"}
  ELSE LET K == r.K  ns == ToSet(r.names)  spec == NamesOf(K)  n == Len(r.names) IN
    Flag(Distinct(r.names), "duplicate_names")
    \cup Flag(Distinct(r.cfgs), "enum_config_twice")
    \cup Flag(spec \subseteq ns, "enum_missing_valid_config")
    \cup Flag(ns \subseteq spec, "enum_extra_config")
    \cup Flag(n = Card(K), "space_size_not_predicted")
    \cup Flag(Len(r.cfgs) = n /\ \A i \in 1..Len(r.cfgs) : r.cfgs[i] \in RawOf(K), "config_outside_parameter_space")
    \cup Flag(\A i \in 1..Len(r.cfgs) : r.cfgs[i] \in RawOf(K) => ValidOf(K, r.cfgs[i]), "enum_invalid_config")
    \cup Flag(\A i \in 1..Len(r.cfgs) : (i <= n /\ r.cfgs[i] \in RawOf(K)) => r.names[i] = NameOf(K, r.cfgs[i]), "name_differs_from_grammar")
    \cup Flag(Distinct(r.hashes), "M:element_hash_collision")
    \cup Flag(r.vf_intact, "M:validation_funcs_argument_modified")

RawClauses(r) ==
  IF r.cfg \notin RawOf(r.K) THEN {"config_outside_parameter_space"}
  ELSE LET v == ValidOf(r.K, r.cfg) IN
    Flag(r.valid = TF(v), "validity_rule_differs")
    \cup Flag(r.in_enum => v, "enum_invalid_config")
    \cup Flag(v => r.in_enum, "enum_missing_valid_config")
    \cup Flag(r.name = NameOf(r.K, r.cfg), "name_differs_from_grammar")

\* via = "reload": the same saved dict is loaded a SECOND time and overwritten in place by the caller before the loaded tokenizer
\* is read; the statement's clauses are the same for every via.  That load leaves its argument as it was is Layer M.
IoClauses(r) ==
  Flag(r.arg_intact, "M:load_modifies_its_argument")
  \cup (IF r.res # "ok" THEN {"load_raises"}
        ELSE Flag(r.eq, "loaded_not_equal")
             \cup Flag(r.name2 = r.name, "loaded_name_differs")
             \cup Flag(r.hash2 = r.hash, "loaded_hash_differs")
             \cup Flag(r.typed2 /\ r.cfg2 = r.cfg, "loaded_config_differs"))

ProcClauses(r) ==
  Flag(\A i \in 1..Len(r.procs) : r.procs[i].res = "ok", "process_raises")
  \cup Flag(\A i \in 1..Len(r.procs) : r.procs[i].res = "ok" => r.procs[i].name = r.name, "name_unstable_across_processes")
  \cup Flag(\A i \in 1..Len(r.procs) : r.procs[i].res = "ok" => (r.procs[i].hash = r.hash /\ r.procs[i].b64 = r.b64), "hash_unstable_across_processes")

TokClauses(r) ==
  IF ~IsTokRaw(r.cfg) THEN {"config_outside_parameter_space"}
  ELSE Flag(r.enumerated => TokValid(r.cfg), "enum_invalid_config")
       \cup Flag(r.valid = TF(TokValid(r.cfg)), "validity_rule_differs")
       \cup Flag(r.name = TokName(r.cfg), "name_differs_from_grammar")
       \cup Flag(r.legacy \in {"T", "F"}, "legacy_query_raises")
       \cup Flag(r.twin_eq /\ r.twin_name = r.name /\ r.twin_hash = r.hash, "equal_tokenizers_differ")
       \cup ProcClauses(r)

DistinctClauses(r) ==
  Flag(Distinct(r.names), "duplicate_names")
  \cup Flag(Distinct(r.hashes) /\ Distinct(r.b64s), "hash_collision")

SpaceClauses(r) ==
  IF r.res = "skipped" THEN {"space_size_not_predicted"}    \* the family enumerations alone already give a product > 3*10^7
  ELSE IF r.res # "ok" THEN {"enumeration_raises"}
  ELSE Flag(r.n_items = PredictedScope(r.scope), "space_size_not_predicted")
       \cup Flag(r.n_distinct_names = r.n_items, "duplicate_names")
       \cup Flag(r.n_distinct_hashes = r.n_hashed /\ r.n_hashed >= 1 /\ r.n_hashed <= r.n_items, "hash_collision")
       \cup Flag(r.n_missing <= 0, "enum_missing_valid_config")
       \cup Flag(r.n_extra <= 0, "enum_extra_config")
       \cup Flag(r.n_invalid <= 0, "enum_invalid_config")
       \cup Flag(r.n_unstable <= 0, "hash_unstable_across_processes")
       \cup Flag(r.n_spec = PredictedScope(r.scope), "M:spec_product_size")

LegacyClauses(r) ==
  IF r.res # "ok" THEN {"from_legacy_raises"}
  ELSE Flag(r.self_reports = "T", "legacy_image_not_self_reported")
       \cup Flag(r.mode \in LegacyModes /\ r.cfg = LegacyMap(r.mode), "M:legacy_image_differs_from_model")

LegacySetClauses(r) ==
  LET im == ToSet(r.images)  cl == ToSet(r.claimed) IN
  Flag(cl \subseteq im, "non_image_reports_legacy_equivalent")
  \cup Flag(im \subseteq cl, "legacy_image_not_self_reported")
  \cup Flag(r.full => Distinct(r.claimed), "enum_config_twice")
  \cup Flag(im = LegacyEquivalent, "M:legacy_image_differs_from_model")

\* identity must not depend on what the object has been used for
UseClauses(r) ==
  IF r.res # "ok" THEN {}                                  \* not constructible: judged by the "tok" record of the same configuration
  ELSE IF ~IsTokRaw(r.cfg) THEN {"config_outside_parameter_space"}
  ELSE Flag(r.name = TokName(r.cfg), "name_differs_from_grammar")
       \cup Flag(r.name_used = r.name, "name_changed_by_use")
       \cup Flag(r.hash_used = r.hash /\ r.b64_used = r.b64, "hash_changed_by_use")
       \cup Flag(r.twin_eq /\ r.twin_name = r.name_used /\ r.twin_hash = r.hash_used, "equal_tokenizers_differ_after_use")
       \cup (IF r.load_res # "ok" THEN {"load_raises"}
             ELSE Flag(r.load_eq, "loaded_not_equal") \cup Flag(r.load_name = r.name_used, "loaded_name_differs_after_use"))

\* the enumeration must not depend on which of its consumers ran before in the process
HistoryClauses(r) ==
  IF r.res # "ok" THEN {"enumeration_raises"}
  ELSE Flag(r.before_n = PredictedFull, "space_size_not_predicted")
       \cup Flag(/\ r.after_n = r.before_n
                 /\ r.after_images = r.before_images
                 /\ (r.same_members \/ (r.after_missing <= 0 /\ r.after_extra <= 0 /\ r.after_distinct = r.after_n)),
                 "enumeration_changed_by_use")
       \cup Flag(\A i \in 1..Len(r.images) :
                   (IsTokRaw(r.images[i]) /\ TokValid(r.images[i])) => (i <= Len(r.after_images) /\ r.after_images[i] /\ r.before_images[i]),
                 "enum_missing_valid_config")

Clauses(r) ==
  CASE r.kind = "enum" -> EnumClauses(r)
    [] r.kind = "use" -> UseClauses(r)
    [] r.kind = "history" -> HistoryClauses(r)
    [] r.kind = "raw" -> RawClauses(r)
    [] r.kind = "rawcount" -> Flag(r.n = Cardinality(RawOf(r.K)), "M:raw_parameter_space_differs")
    [] r.kind = "untyped" -> {"config_outside_parameter_space"}
    [] r.kind = "io" -> IoClauses(r)
    [] r.kind = "tok" -> TokClauses(r)
    [] r.kind = "distinct" -> DistinctClauses(r)
    [] r.kind = "space" -> SpaceClauses(r)
    [] r.kind = "legacy" -> LegacyClauses(r)
    [] r.kind = "legacyset" -> LegacySetClauses(r)
    [] OTHER -> {"unknown_record_kind"}

TInit == l = 1 /\ bad = {}
TNext == /\ l <= Len(Log) /\ l' = l + 1
         /\ bad' = bad \cup (LET cs == Clauses(Log[l]) IN IF cs = {} THEN {} ELSE {[id |-> Log[l].id, c |-> cs]})
Spec == TInit /\ [][TNext]_<<l, bad>>
Done == (l = Len(Log) + 1) =>
          ndJsonSerialize(IOEnv.VERIF_OUT, <<[id |-> -1, c |-> {ToString(Len(Log))}]>> \o SetToSeq(bad))
=============================================================================
