CONSTANTS Cfgs <- CfgsC12
  W = 3  MaxFaults = 3  MaxReqs = 3  CheckDiff = TRUE  SwallowReadErrors = TRUE
SPECIFICATION Spec
PROPERTY EveryRequestEnds
CHECK_DEADLOCK FALSE
