CONSTANTS Shapes <- ShapesTiny
CONSTANTS Variant = "post_order"
SPECIFICATION Spec
INVARIANT IsolatedCellsWalled
CHECK_DEADLOCK FALSE
