SPECIFICATION Spec
CONSTANTS
  MaxLen = 3
  MaxMembers = 5
  SearchArg = "index_plus_1"
  Side = "left"
  Subtract = "own"
  CacheCum = "none"
  MazesBuild = "atomic"
INVARIANTS TypeOK CursorIsConcat GetIsConcat EndRaises MazesNeverTruncated MazesAgreeWithLen ViewsAgree ConcatIsBijection SearchSortedIsInsertionPoint
CHECK_DEADLOCK FALSE
