SPECIFICATION Spec
CONSTANTS
  MaxLen = 3
  MaxMembers = 5
  SearchArg = "index_plus_1"
  Side = "left"
  Subtract = "own"
INVARIANTS TypeOK CursorIsConcat GetIsConcat EndRaises ViewsAgree ConcatIsBijection SearchSortedIsInsertionPoint
CHECK_DEADLOCK FALSE
