------------------------------ MODULE MC_Cache ------------------------------
(* Apalache wrapper: NeverWrongData /\ LoadableAfter /\ NoReadError (with Cache!Strengthening) as an INDUCTIVE invariant of
   Cache.tla, i.e. for ANY number of requests and faults (TLC explores <= 3 requests and <= 3 faults). *)
EXTENDS Naturals, Sequences, Apalache
Cfgs == {"c1", "c2"}
W == 3
MaxFaults == 1000000000
MaxReqs == 1000000000
CheckDiff == TRUE
SwallowReadErrors == TRUE
VARIABLES
  \* @type: Str -> {k: Str, owner: Str};
  file,
  \* @type: Str;
  pc,
  \* @type: Str;
  req,
  \* @type: Str;
  out,
  \* @type: Bool;
  loaded,
  \* @type: Int;
  wr,
  \* @type: Seq({req: Str, kind: Str, out: Str, file: {k: Str, owner: Str}});
  hist,
  \* @type: Int;
  faults,
  \* @type: Int;
  nreq
INSTANCE Cache
FileVal == {Absent, Damaged} \cup {Intact(c) : c \in Cfgs}
PCs == {"idle", "exists", "read", "gen", "diff", "save", "ret"}
TypeOK == /\ file \in [Cfgs -> FileVal] /\ pc \in PCs /\ req \in Cfgs /\ out \in Cfgs /\ loaded \in BOOLEAN
          /\ wr \in 0..W /\ faults \in Nat /\ nreq \in Nat
          /\ (pc = "save" => wr < W)
IndInv == TypeOK /\ Strengthening /\ NeverWrongData /\ LoadableAfter /\ NoReadError
IndInit == /\ file \in [Cfgs -> FileVal] /\ pc \in PCs /\ req \in Cfgs /\ out \in Cfgs /\ loaded \in BOOLEAN
           /\ wr \in 0..W /\ faults \in 0..1000 /\ nreq \in 0..1000 /\ hist = Gen(4)
           /\ IndInv
==============================================================================
