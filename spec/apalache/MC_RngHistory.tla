--------------------------- MODULE MC_RngHistory ---------------------------
(* Apalache wrapper: PureFunctionOfCfg as an INDUCTIVE invariant of RngHistory, i.e. for histories of ANY length
   (TLC explores histories to depth 6 only).  Constants are fixed as in RngHistory_small.cfg except that the step
   bound is effectively removed (MaxSteps = 10^9) and the draw counter saturates at K = 2.
     apalache-mc check --init=IndInit --inv=IndInv --length=1 MC_RngHistory.tla     (inductive step)
     apalache-mc check --init=Init --inv=IndInv --length=0 MC_RngHistory.tla        (base case)            *)
EXTENDS Naturals, Sequences, Apalache
Seeds == {1, 2}
Cfgs == {"a", "b"}
SeedOf == [c \in Cfgs |-> IF c = "a" THEN 1 ELSE 2]
UsesPy == [c \in Cfgs |-> c = "a"]
NFilters == [c \in Cfgs |-> IF c = "a" THEN 0 ELSE 2]
K == 2
MaxSteps == 1000000000
ReseedOnCopy == TRUE
VARIABLES
  \* @type: Str -> <<Int, Int>>;
  rng,
  \* @type: Seq(<<Str, <<Int, Int>>, <<Int, Int>>>>);
  log,
  \* @type: Int;
  steps,
  \* @type: Seq({a: Str, r: Str, s: Int, c: Str});
  hist
INSTANCE RngHistory
StreamVal == ({0} \cup Seeds) \X (0..K)
TypeOK == /\ rng \in [Streams -> StreamVal]
          /\ steps \in Nat /\ steps <= MaxSteps
          /\ \A i \in DOMAIN log : log[i][1] \in Cfgs /\ log[i][2] \in StreamVal /\ log[i][3] \in StreamVal
IndInv == TypeOK /\ PureFunctionOfCfg
\* an arbitrary state satisfying the invariant: logs of up to 6 entries (the property speaks about each entry separately)
IndInit == /\ rng \in [Streams -> StreamVal]
           /\ log = Gen(6) /\ hist = Gen(1) /\ steps \in 0..(MaxSteps - 1)
           /\ IndInv
==============================================================================
