---------------------------- MODULE MC_DatasetGen ----------------------------
(* Apalache wrapper: ItemFromThisCfg /\ LenExact (with DatasetGen!Strengthening) as an INDUCTIVE invariant of DatasetGen.tla,
   i.e. for ANY number of generate calls in one parent process (TLC explores 2 consecutive calls). 3 mazes, <= 3 workers. *)
EXTENDS Naturals, Sequences, Apalache
Cfgs == {"a", "b"}
NMazes == 3
MaxWorkers == 3
MaxCalls == 1000000000
InitSetsGlobal == TRUE
SerialInits == TRUE
VARIABLES
  \* @type: Str;
  pglobal,
  \* @type: {cfg: Str, mode: Str, W: Int};
  call,
  \* @type: Int -> Str;
  wglobal,
  \* @type: Int -> <<Str, Int>>;
  wstate,
  \* @type: Int;
  nextIdx,
  \* @type: Int -> Str;
  results,
  \* @type: Int;
  ncalls,
  \* @type: Seq(<<Str, Int -> Str>>);
  out
INSTANCE DatasetGen
CfgOrUnset == Cfgs \cup {Unset}
WStates == {"new", "idle", "busy", "gone"}
TypeOK == /\ pglobal \in CfgOrUnset
          /\ (call = NoCall \/ (call.cfg \in Cfgs /\ call.mode \in {"serial", "pool"} /\ call.W \in 0..MaxWorkers))
          /\ wglobal \in [Workers -> CfgOrUnset]
          /\ \A w \in Workers : wstate[w][1] \in WStates /\ wstate[w][2] \in 0..NMazes /\ (wstate[w][1] = "busy" => wstate[w][2] \in Idx)
          /\ DOMAIN wstate = Workers
          /\ nextIdx \in 1..(NMazes + 1)
          /\ results \in [Idx -> CfgOrUnset]
          /\ ncalls \in Nat
IndInv == TypeOK /\ Strengthening /\ ItemFromThisCfg /\ LenExact
IndInit == /\ pglobal \in CfgOrUnset
           /\ call \in {NoCall} \cup [cfg : Cfgs, mode : {"serial", "pool"}, W : 0..MaxWorkers]
           /\ wglobal \in [Workers -> CfgOrUnset]
           /\ wstate \in [Workers -> WStates \X (0..NMazes)]
           /\ nextIdx \in 1..(NMazes + 1)
           /\ results \in [Idx -> CfgOrUnset]
           /\ ncalls \in 0..1000
           /\ out = Gen(3)
           /\ IndInv
===============================================================================
