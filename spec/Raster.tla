---------------------------- MODULE Raster ----------------------------
(* C17 - what the rasterized INPUT / TARGET image pair of a solved maze IS, what the two optional
   post-processing steps do, and what a batch is.  Built on Pixels.tla (C10): colour codes, the maze
   record m = [kind, R, C, conn, start, end, sol], PxImage / StartPx / EndPx / SolPx.

   Part 1 (pure definitions, used by the oracle Trace_Raster.tla) - the STATEMENT:
     InputImg(m)            the maze's pixel image with the solution hidden, endpoints kept
     TargetImg(m, eao)      wall everywhere except the solution pixels (open); endpoints keep their
                            colour, or are opened when endpoints_as_open
     RemoveIsolated(img)    open (= non-wall) pixels with no open 4-neighbour become wall
     Extend(img)            every pixel doubled in both directions + one-pixel wall frame: (2h+2) x (2w+2)
     RasterInput/RasterTarget(m, ric, ext, eao)   = Extend? o RemoveIsolated? o Input/Target
     Batch(items, idxs)     stack items[idxs[1]], items[idxs[2]], ... in that order
     StageClauses           verdict for an observed image (names the failing stage)
   Part 2 (CONSTANTS + VARIABLES, model-checked with Raster_small.cfg) - the MECHANISM the
   implementation uses (render the full picture once, then rewrite colours, then post-process),
   composed step by step, and the theorems on the finite scope: mechanism = statement, the
   clause-style characterisations of each step, and arbitrary small images for the two
   post-processing steps.  Variant # "none" selects a deliberately broken mechanism which TLC must
   reject (non-vacuity of the theorems; "ext_square" needs the OBLONG shapes of the scope, "ric_open_only"
   needs a ONE-CELL solution on a cell without connections).

   Interpretation decisions:
   * "open" in "open pixels with no open 4-neighbour" means NOT A WALL (the docstring of
     _remove_isolated_cells: "a cell that is surrounded by walls on all sides"; the endpoint marks are
     drawn on open cells).  Reading it as the colour OPEN only would wall the middle pixel of a
     two-cell solution whose neighbours are the START and END marks - absurd.  Outside the image
     there is nothing open.
   * start = end (a one-cell solution) is drawn as ONE END mark (Pixels.tla / DESIGN 4).
   * images are sequences of rows of colour codes, img[y][x], 1-based. *)
EXTENDS Pixels, TLC

(* =========================== Part 1: the statement =========================== *)
IsOpenPx(c) == c # WALL
ImgH(img) == Len(img)
ImgW(img) == IF Len(img) = 0 THEN 0 ELSE Len(img[1])
Rectangular(img) == \A y \in 1..Len(img) : Len(img[y]) = ImgW(img)
SameShape(a, b) == Len(a) = Len(b) /\ \A y \in 1..Len(a) : Len(a[y]) = Len(b[y])

\* INPUT: the problem.  The maze's pixel image showing the endpoints and not the solution
InputImg(m) == PxImage(m, TRUE, FALSE)

\* TARGET: only the solution
TargetPxWith(e, s, p, eao, y, x) ==
  IF <<y, x>> \in e THEN (IF eao THEN OPEN ELSE END)
  ELSE IF <<y, x>> \in s THEN (IF eao THEN OPEN ELSE START)
  ELSE IF <<y, x>> \in p THEN OPEN
  ELSE WALL
TargetImg(m, eao) ==
  LET e == EndPx(m, TRUE)  s == StartPx(m, TRUE)  p == SolPx(m) IN
  [y \in 1..PxH(m) |-> [x \in 1..PxW(m) |-> TargetPxWith(e, s, p, eao, y - 1, x - 1)]]

\* post-processing 1: isolated open pixels become wall (all pixels judged on the ORIGINAL image)
OpenAt(img, y, x) == y >= 1 /\ y <= Len(img) /\ x >= 1 /\ x <= Len(img[y]) /\ IsOpenPx(img[y][x])
HasOpenNb4(img, y, x) == OpenAt(img, y - 1, x) \/ OpenAt(img, y + 1, x) \/ OpenAt(img, y, x - 1) \/ OpenAt(img, y, x + 1)
IsolatedAt(img, y, x) == IsOpenPx(img[y][x]) /\ ~HasOpenNb4(img, y, x)
RemoveIsolated(img) ==
  [y \in 1..Len(img) |-> [x \in 1..Len(img[y]) |-> IF IsolatedAt(img, y, x) THEN WALL ELSE img[y][x]]]

\* post-processing 2: pixel extension
WallRow(n) == [x \in 1..n |-> WALL]
ExtendRow(row) == [x \in 1..(2 * Len(row) + 2) |-> IF x = 1 \/ x = 2 * Len(row) + 2 THEN WALL ELSE row[x \div 2]]
Extend(img) ==
  LET H == ImgH(img)  W == ImgW(img)
      rows == [y \in 1..H |-> ExtendRow(img[y])]
      wall == WallRow(2 * W + 2) IN
  [y \in 1..(2 * H + 2) |-> IF y = 1 \/ y = 2 * H + 2 THEN wall ELSE rows[y \div 2]]
\* reading an extended image: is it one (frame + constant 2x2 blocks), and of which image
IsExtension(img) ==
  LET H2 == Len(img)  W2 == ImgW(img) IN
  /\ H2 >= 2 /\ W2 >= 2 /\ H2 % 2 = 0 /\ W2 % 2 = 0 /\ Rectangular(img)
  /\ img[1] = WallRow(W2) /\ img[H2] = WallRow(W2)
  /\ \A y \in 1..H2 : img[y][1] = WALL /\ img[y][W2] = WALL
  /\ \A i \in 1..((H2 - 2) \div 2) : img[2 * i] = img[2 * i + 1]
  /\ \A i \in 1..((H2 - 2) \div 2) : \A j \in 1..((W2 - 2) \div 2) : img[2 * i][2 * j] = img[2 * i][2 * j + 1]
Shrink(img) == [y \in 1..((Len(img) - 2) \div 2) |-> [x \in 1..((ImgW(img) - 2) \div 2) |-> img[2 * y][2 * x]]]

Post(img, ric, ext) ==
  LET a == IF ric THEN RemoveIsolated(img) ELSE img IN IF ext THEN Extend(a) ELSE a
RasterInput(m, ric, ext) == Post(InputImg(m), ric, ext)
RasterTarget(m, ric, ext, eao) == Post(TargetImg(m, eao), ric, ext)

\* batches: items = sequence of <<input, target>>, idxs = sequence of 0-based indices;
\* stacking appends one item at a time, in index-list order
RECURSIVE Batch(_, _)
Batch(items, idxs) ==
  IF idxs = <<>> THEN <<<<>>, <<>>>>
  ELSE LET n == Len(idxs)  b == Batch(items, SubSeq(idxs, 1, n - 1))  it == items[idxs[n] + 1] IN
       <<Append(b[1], it[1]), Append(b[2], it[2])>>

\* verdict for one observed image: which = "input" / "target", base = the un-post-processed image
\* the statement demands.  Names the first stage that cannot explain the observation.
StageClauses(which, obs, base, ric, ext) ==
  LET pre == IF ric THEN RemoveIsolated(base) ELSE base
      exp == IF ext THEN Extend(pre) ELSE pre IN
  IF obs = exp THEN {}
  ELSE IF ~SameShape(obs, exp) THEN {IF ext THEN "extend_shape" ELSE which \o "_size"}
  ELSE IF ext /\ ~IsExtension(obs) THEN {"extend_pixels"}
  ELSE LET o == IF ext THEN Shrink(obs) ELSE obs IN
    \* a difference from the base image that is not "an open pixel became wall under remove_isolated"
    IF \E y \in 1..Len(base) : \E x \in 1..Len(base[y]) :
         o[y][x] # base[y][x] /\ ~(ric /\ o[y][x] = WALL)
      THEN {which \o "_image"}
      ELSE {"remove_isolated"}

(* =========================== Part 2: mechanism + finite-scope theorems =========================== *)
CONSTANTS Shapes,     \* set of <<rows, cols>>: every connection structure x every (start, end) x every simple path
          Variant     \* "none", or the name of a deliberately broken mechanism
VARIABLES mz, opt, out, pc
vars == <<mz, opt, out, pc>>

MapImg(img, F(_)) == [y \in 1..Len(img) |-> [x \in 1..Len(img[y]) |-> F(img[y][x])]]
\* the implementation renders the complete picture once ...
FullImg(m) == PxImage(m, TRUE, TRUE)
\* ... hides the path in the problem image ...
HideCol(c) == IF c = PATH /\ Variant # "leak" THEN OPEN ELSE c
MechInput(m) == MapImg(FullImg(m), HideCol)
\* ... and rewrites the solution image: open -> wall, THEN path -> open, then the endpoints
SolCol1(c) == IF c = OPEN THEN WALL ELSE c
SolCol2(c) == IF c = PATH THEN OPEN ELSE c
EndCol(c) == IF c \in {START, END} THEN OPEN ELSE c
Id(c) == c
MechTarget(m, eao) ==
  LET a == IF Variant = "recolour_order" THEN MapImg(MapImg(FullImg(m), SolCol2), SolCol1)
                                          ELSE MapImg(MapImg(FullImg(m), SolCol1), SolCol2) IN
  IF eao THEN MapImg(a, EndCol) ELSE a
\* isolated = walls on all four sides (broken: on all eight sides)
OpenNb8Diag(img, y, x) == OpenAt(img, y - 1, x - 1) \/ OpenAt(img, y - 1, x + 1) \/ OpenAt(img, y + 1, x - 1) \/ OpenAt(img, y + 1, x + 1)
\* (broken "ric_open_only": only pixels of the colour OPEN are candidates - the lone END mark of a one-cell
\*  solution on an isolated cell survives: shortest solution x remove_isolated_cells)
MechRemoveIsolated(img) ==
  [y \in 1..Len(img) |-> [x \in 1..Len(img[y]) |->
     IF (IF Variant = "ric_open_only" THEN img[y][x] = OPEN ELSE IsOpenPx(img[y][x]))
        /\ ~HasOpenNb4(img, y, x) /\ (Variant = "nbr8" => ~OpenNb8Diag(img, y, x)) THEN WALL ELSE img[y][x]]]
\* repeat every pixel twice along both axes, then pad by one (broken: pad, then repeat)
Repeat2(img) == [y \in 1..(2 * Len(img)) |-> [x \in 1..(2 * ImgW(img)) |-> img[(y + 1) \div 2][(x + 1) \div 2]]]
Pad1(img) ==
  [y \in 1..(Len(img) + 2) |-> [x \in 1..(ImgW(img) + 2) |->
     IF y = 1 \/ y = Len(img) + 2 \/ x = 1 \/ x = ImgW(img) + 2 THEN WALL ELSE img[y - 1][x - 1]]]
\* (broken "ext_square": the width of the framed picture is computed from its HEIGHT - invisible on square mazes)
Pad1Sq(img) ==
  [y \in 1..(Len(img) + 2) |-> [x \in 1..(Len(img) + 2) |->
     IF y = 1 \/ y = Len(img) + 2 \/ x = 1 \/ x = Len(img) + 2 \/ x - 1 > ImgW(img) THEN WALL ELSE img[y - 1][x - 1]]]
MechExtend(img) == IF Variant = "pad_first" THEN Repeat2(Pad1(img))
                   ELSE IF Variant = "ext_square" THEN Pad1Sq(Repeat2(img))
                   ELSE Pad1(Repeat2(img))
MechPost(img, ric, ext) ==
  IF Variant = "post_order"
    THEN (LET a == IF ext THEN MechExtend(img) ELSE img IN IF ric THEN MechRemoveIsolated(a) ELSE a)
    ELSE (LET a == IF ric THEN MechRemoveIsolated(img) ELSE img IN IF ext THEN MechExtend(a) ELSE a)
\* batch = zip(*[item(i) for i in idxs]) then stack both halves (broken: indices visited in sorted order)
LeqI(a, b) == a <= b
MechBatch(items, idxs) ==
  LET ix == IF Variant = "batch_sorted" THEN SortSeq(idxs, LeqI) ELSE idxs IN
  <<[k \in 1..Len(ix) |-> items[ix[k] + 1][1]], [k \in 1..Len(ix) |-> items[ix[k] + 1][2]]>>

ConnsOf(r, c) ==
  {x \in [1..2 -> [1..r -> [1..c -> {0, 1}]]] :
     (\A j \in 1..c : x[1][r][j] = 0) /\ (\A i \in 1..r : x[2][i][c] = 0)}
RECURSIVE SimplePaths(_, _, _, _, _)
SimplePaths(R, C, conn, p, t) ==
  LET a == p[Len(p)] IN
  IF a = t THEN {p}
  ELSE UNION {SimplePaths(R, C, conn, Append(p, b), t) : b \in {n \in NbC(R, C, conn, a) : \A k \in 1..Len(p) : p[k] # n}}
NoMaze == [kind |-> "none"]
Opts == BOOLEAN \X BOOLEAN \X BOOLEAN     \* <<remove_isolated_cells, extend_pixels, endpoints_as_open>>

Init == mz = NoMaze /\ opt = <<>> /\ out = <<>> /\ pc = "start"
\* any solved maze of the scope: every simple path incl. the one-cell path (start = end)
Pick == /\ pc = "start"
        /\ \E sh \in Shapes : \E cn \in ConnsOf(sh[1], sh[2]) : \E s \in CellsOf(sh[1], sh[2]), e \in CellsOf(sh[1], sh[2]) :
             \E p \in SimplePaths(sh[1], sh[2], cn, <<s>>, e) :
               mz' = [kind |-> KSolved, R |-> sh[1], C |-> sh[2], conn |-> cn, start |-> s, end |-> e, sol |-> p]
        /\ pc' = "picked" /\ UNCHANGED <<opt, out>>
\* one call of the mechanism under one option combination
Rasterize == /\ pc = "picked"
             /\ \E o \in Opts :
                  /\ opt' = o
                  /\ out' = <<MechPost(MechInput(mz), o[1], o[2]), MechPost(MechTarget(mz, o[3]), o[1], o[2])>>
             /\ pc' = "done" /\ UNCHANGED mz
\* the two post-processing steps on arbitrary small images / batching of abstract items
Images == pc = "start" /\ pc' = "images" /\ UNCHANGED <<mz, opt, out>>
Batches == pc = "start" /\ pc' = "batches" /\ UNCHANGED <<mz, opt, out>>
Next == Pick \/ Rasterize \/ Images \/ Batches
Spec == Init /\ [][Next]_vars

(* ---------------- theorems ---------------- *)
ScopeOK == pc = "picked" => WellFormedMaze(mz)
Core(img) == IF opt[2] THEN Shrink(img) ELSE img
PixelsOf(img) == {<<y - 1, x - 1>> : <<y, x>> \in (1..Len(img)) \X (1..ImgW(img))}
OpenPixels(img) == {q \in PixelsOf(img) : IsOpenPx(img[q[1] + 1][q[2] + 1])}

\* the mechanism computes what the statement says, for every option combination
MechIsStatement ==
  pc = "done" => /\ out[1] = RasterInput(mz, opt[1], opt[2])
                 /\ out[2] = RasterTarget(mz, opt[1], opt[2], opt[3])
\* the input IS the picture of the maze with endpoints and without the solution (judged by C10's own
\* clauses of what a picture is), it contains no path pixel, and every solution pixel is walkable in it
InputHidesSolution ==
  (pc = "done" /\ ~opt[1]) =>
    LET inp == Core(out[1]) IN
    /\ ImgClauses(mz, TRUE, FALSE, inp) = {}
    /\ PxOfColour(inp, PATH) = {}
    /\ SolPx(mz) \subseteq OpenPixels(inp)
\* the target shows the solution and nothing else
TargetShowsOnlySolution ==
  (pc = "done" /\ ~opt[1]) =>
    LET tgt == Core(out[2]) IN
    /\ SizeOK(mz, tgt)
    /\ OpenPixels(tgt) = SolPx(mz)
    /\ PxOfColour(tgt, PATH) = {}
    /\ PxOfColour(tgt, START) = (IF opt[3] THEN {} ELSE StartPx(mz, TRUE))
    /\ PxOfColour(tgt, END) = (IF opt[3] THEN {} ELSE EndPx(mz, TRUE))
\* target = input masked by the solution (they agree on every solution pixel except opened endpoints;
\* off the solution the target is wall)
TargetIsMaskedInput ==
  (pc = "done" /\ ~opt[1]) =>
    LET inp == Core(out[1])  tgt == Core(out[2])  sp == SolPx(mz) IN
    \A y \in 1..PxH(mz), x \in 1..PxW(mz) :
      tgt[y][x] = IF <<y - 1, x - 1>> \in sp
                    THEN (IF opt[3] /\ inp[y][x] \in {START, END} THEN OPEN ELSE inp[y][x])
                    ELSE WALL
\* pixel extension: stated shape, wall frame, constant 2x2 blocks over the un-extended result
ExtendShape ==
  (pc = "done" /\ opt[2]) => \A k \in 1..2 :
    /\ Len(out[k]) = 2 * PxH(mz) + 2
    /\ \A y \in 1..Len(out[k]) : Len(out[k][y]) = 2 * PxW(mz) + 2
ExtendBlocks ==
  (pc = "done" /\ opt[2]) =>
    /\ IsExtension(out[1]) /\ IsExtension(out[2])
    /\ Shrink(out[1]) = RasterInput(mz, opt[1], FALSE)
    /\ Shrink(out[2]) = RasterTarget(mz, opt[1], FALSE, opt[3])
\* remove_isolated in lattice terms: in the input exactly the cells without any connection are walled
\* (whatever mark they carry); the target is emptied iff the solution is a single cell
IsolatedCellsWalled ==
  (pc = "done" /\ opt[1]) =>
    LET inp == Core(out[1])  tgt == Core(out[2])  base == InputImg(mz) IN
    /\ SameShape(inp, base)
    /\ \A y \in 1..PxH(mz), x \in 1..PxW(mz) :
         inp[y][x] = IF IsCellPx(y - 1, x - 1) /\ Degree(mz.R, mz.C, mz.conn, <<(y - 1) \div 2, (x - 1) \div 2>>) = 0
                       THEN WALL ELSE base[y][x]
    /\ tgt = IF Len(mz.sol) = 1 THEN [y \in 1..PxH(mz) |-> WallRow(PxW(mz))] ELSE TargetImg(mz, opt[3])

\* arbitrary small images (not only maze pictures)
ImagesOf(h, w, cols) == [1..h -> [1..w -> cols]]
SmallImages ==
  UNION {ImagesOf(s[1], s[2], {WALL, OPEN, START}) : s \in {<<1, 1>>, <<1, 2>>, <<2, 1>>, <<2, 2>>, <<1, 3>>, <<3, 1>>, <<2, 3>>, <<3, 2>>}}
  \cup ImagesOf(3, 3, {WALL, OPEN})
IsolatedMeans4Nbr ==
  pc = "images" => \A img \in SmallImages :
    LET o == MechRemoveIsolated(img) IN
    /\ o = RemoveIsolated(img)
    /\ MechRemoveIsolated(o) = o                                                       \* idempotent
    /\ \A y \in 1..Len(img) : \A x \in 1..Len(img[y]) :
         /\ o[y][x] \in {WALL, img[y][x]}                                              \* only open -> wall
         /\ (IsOpenPx(img[y][x]) /\ HasOpenNb4(img, y, x)) => o[y][x] = img[y][x]      \* a pixel with an open neighbour stays
         /\ IsOpenPx(o[y][x]) => HasOpenNb4(o, y, x)                                   \* no isolated pixel survives
ExtendDoubles ==
  pc = "images" => \A img \in SmallImages :
    LET o == MechExtend(img) IN
    /\ o = Extend(img)
    /\ Len(o) = 2 * Len(img) + 2 /\ \A y \in 1..Len(o) : Len(o[y]) = 2 * ImgW(img) + 2
    /\ IsExtension(o) /\ Shrink(o) = img
\* batches: item k of the batch is the item at idxs[k], for every index list (repeats, any order, empty)
AbstractItems == <<<<"in0", "tg0">>, <<"in1", "tg1">>, <<"in2", "tg2">>>>
IdxLists == UNION {[1..n -> 0..2] : n \in 0..3}
BatchOrder ==
  pc = "batches" => \A idxs \in IdxLists :
    LET b == MechBatch(AbstractItems, idxs) IN
    /\ Len(b) = 2 /\ Len(b[1]) = Len(idxs) /\ Len(b[2]) = Len(idxs)
    /\ \A k \in 1..Len(idxs) : b[1][k] = AbstractItems[idxs[k] + 1][1] /\ b[2][k] = AbstractItems[idxs[k] + 1][2]
    /\ <<b[1], b[2]>> = Batch(AbstractItems, idxs)
=======================================================================
