CONSTANTS Bound = 50
          UseShell = TRUE
SPECIFICATION VSpec
INVARIANT PermInv
INVARIANT SortedInv
INVARIANT ShellInv
INVARIANT PrefixInv
INVARIANT LegacyInv
INVARIANT LegacyInVocab
INVARIANT OrderInv
CHECK_DEADLOCK FALSE
