CONSTANTS Shapes <- ShapesTiny
SPECIFICATION FairSpec
PROPERTY AlwaysReturns
CHECK_DEADLOCK FALSE
