\* C07 design check: all graphs of the shapes 1x1,1x2,2x1,1x3,3x1,2x2 x three kinds (every start/end pair,
\* every cell sequence of length <= 2 as solution) x {UT, CTT} x EVERY admissible emission
SPECIFICATION Spec
CONSTANTS
  Shapes <- ShapesL1
  CoordKinds <- BothCoordKinds
  MaxSol = 2
  TreesOnly = FALSE
  WhichKinds <- Kinds
  BrokenLimit = FALSE
INVARIANTS RoundTrip RoundTripUpToGrid RoundTripIff InEmitExact WrongStyleRejected EquivExact BagNotSet
CHECK_DEADLOCK FALSE
