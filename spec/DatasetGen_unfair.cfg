CONSTANTS Cfgs <- CfgsAB
  NMazes = 3  MaxWorkers = 3  MaxCalls = 2  InitSetsGlobal = TRUE  SerialInits = TRUE
SPECIFICATION Spec
PROPERTY EveryCallReturns
CHECK_DEADLOCK FALSE
