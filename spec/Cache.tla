------------------------------- MODULE Cache -------------------------------
(* GPTDataset.from_config with the on-disk cache, as steps:
     Begin(c) -> Exists -> [Read ok | Read fails (swallowed)] -> [Generate (+ filters)] -> Diff -> [Save = W writes] -> Return
   and faults on the file between / during requests:
     Damage   truncation / corruption / empty file / interrupted save: the file no longer loads
     Harmless a byte change the container does not notice AND that does not change the decoded data is not a
              fault at all; a change that is noticed makes the file Damaged.  There is deliberately NO
              transition that yields a loadable file holding data other than its owner's: that is the
              integrity assumption (zip CRC-32) which the conformance sweep tests on the real files.
     Foreign(c, d)  an intact file of ANOTHER configuration d placed under c's name
     Crash    the process dies anywhere inside a request (in particular between two writes of a save)
     Delete
   A file is  Absent | Damaged | Intact(owner).  Every configuration has its own file name. *)
EXTENDS Naturals, Sequences, FiniteSets, TLC
CONSTANTS Cfgs, W, MaxFaults, MaxReqs,
          CheckDiff,            \* the loaded/generated config is compared with the request (FALSE = broken design)
          SwallowReadErrors     \* a failing read falls through to generation (FALSE = broken design)
Absent == [k |-> "absent", owner |-> "-"]
Damaged == [k |-> "damaged", owner |-> "-"]
\* @type: (Str) => {k: Str, owner: Str};
Intact(c) == [k |-> "intact", owner |-> c]
VARIABLES file, pc, req, out, loaded, wr, hist, faults, nreq
cvars == <<file, pc, req, out, loaded, wr, hist, faults, nreq>>
Init == /\ file = [c \in Cfgs |-> Absent] /\ pc = "idle" /\ req \in Cfgs /\ out \in Cfgs /\ loaded = FALSE
        /\ wr = 0 /\ hist = <<>> /\ faults = 0 /\ nreq = 0
Begin(c) == /\ pc = "idle" /\ nreq < MaxReqs /\ req' = c /\ pc' = "exists" /\ nreq' = nreq + 1
            /\ UNCHANGED <<file, out, loaded, wr, hist, faults>>
Exists == /\ pc = "exists" /\ pc' = (IF file[req].k = "absent" THEN "gen" ELSE "read")
          /\ UNCHANGED <<file, req, out, loaded, wr, hist, faults, nreq>>
Read == /\ pc = "read"
        /\ IF file[req].k = "intact"
             THEN out' = file[req].owner /\ loaded' = TRUE /\ pc' = "diff" /\ hist' = hist
             ELSE IF SwallowReadErrors THEN pc' = "gen" /\ UNCHANGED <<out, loaded, hist>>
                  ELSE pc' = "idle" /\ hist' = Append(hist, [req |-> req, kind |-> "read_error", out |-> "-", file |-> Absent]) /\ UNCHANGED <<out, loaded>>
        /\ UNCHANGED <<file, req, wr, faults, nreq>>
GenData == /\ pc = "gen" /\ out' = req /\ loaded' = FALSE /\ pc' = "diff"
       /\ UNCHANGED <<file, req, wr, hist, faults, nreq>>
Diff == /\ pc = "diff"
        /\ IF CheckDiff /\ out # req
             THEN pc' = "idle" /\ hist' = Append(hist, [req |-> req, kind |-> "mismatch", out |-> "-", file |-> Absent]) /\ wr' = wr
             ELSE /\ hist' = hist
                  /\ IF loaded THEN pc' = "ret" /\ wr' = wr ELSE pc' = "save" /\ wr' = 0
        /\ UNCHANGED <<file, req, out, loaded, faults, nreq>>
Write == /\ pc = "save" /\ wr' = wr + 1
         /\ file' = [file EXCEPT ![req] = IF wr + 1 = W THEN Intact(out) ELSE Damaged]
         /\ pc' = (IF wr + 1 = W THEN "ret" ELSE "save")
         /\ UNCHANGED <<req, out, loaded, hist, faults, nreq>>
Return == /\ pc = "ret" /\ hist' = Append(hist, [req |-> req, kind |-> "data", out |-> out, file |-> file[req]]) /\ pc' = "idle"
          /\ UNCHANGED <<file, req, out, loaded, wr, faults, nreq>>
Crash == /\ pc # "idle" /\ faults < MaxFaults /\ pc' = "idle" /\ faults' = faults + 1
         /\ UNCHANGED <<file, req, out, loaded, wr, hist, nreq>>
Damage(c) == /\ pc = "idle" /\ faults < MaxFaults /\ file[c].k # "absent" /\ faults' = faults + 1
             /\ file' = [file EXCEPT ![c] = Damaged]
             /\ UNCHANGED <<pc, req, out, loaded, wr, hist, nreq>>
Foreign(c, d) == /\ pc = "idle" /\ faults < MaxFaults /\ c # d /\ faults' = faults + 1
                 /\ file' = [file EXCEPT ![c] = Intact(d)]
                 /\ UNCHANGED <<pc, req, out, loaded, wr, hist, nreq>>
Delete(c) == /\ pc = "idle" /\ faults < MaxFaults /\ file[c].k # "absent" /\ faults' = faults + 1
             /\ file' = [file EXCEPT ![c] = Absent] /\ UNCHANGED <<pc, req, out, loaded, wr, hist, nreq>>
BeginAny == \E c \in Cfgs : Begin(c)
FaultAny == Crash \/ (\E c \in Cfgs : Damage(c) \/ Delete(c)) \/ (\E c, d \in Cfgs : Foreign(c, d))
Next == BeginAny \/ Exists \/ Read \/ GenData \/ Diff \/ Write \/ Return \/ FaultAny
Spec == Init /\ [][Next]_cvars
\* strengthening that makes the C11 invariants inductive (discharged by Apalache for any number of requests and faults:
\* spec/apalache/MC_Cache.tla): what is about to be saved / returned is the requested configuration's data, and when the
\* request is about to return the file already holds it
Strengthening == /\ (pc \in {"save", "ret"} => out = req)
                 /\ (pc = "ret" => file[req] = Intact(req))
                 /\ (pc = "diff" /\ loaded => file[req] = Intact(out))
\* C11
NeverWrongData == \A i \in DOMAIN hist : hist[i].kind = "data" => hist[i].out = hist[i].req
LoadableAfter == \A i \in DOMAIN hist : hist[i].kind = "data" => hist[i].file = Intact(hist[i].req)
NoReadError == \A i \in DOMAIN hist : hist[i].kind # "read_error"
CfgsC12 == {"c1", "c2"}

\* ---------------------------------------------------------------- progress (liveness, beyond the listed properties)
\* a request is a finite straight-line program: it is never stuck, every step brings it closer to its end (at most 6 + W steps),
\* and unless the process is killed it ends - with data or with the documented mismatch error, never by retrying forever.
RequestSteps == Exists \/ Read \/ GenData \/ Diff \/ Write \/ Return
NoStuckRequest == pc # "idle" => ENABLED RequestSteps
Left == CASE pc = "idle" -> 0 [] pc = "ret" -> 1 [] pc = "save" -> 1 + (W - wr) [] pc = "diff" -> 2 + W
          [] pc = "gen" -> 3 + W [] pc = "read" -> 4 + W [] pc = "exists" -> 5 + W [] OTHER -> 0
RequestMakesProgress == [][pc # "idle" => Left' < Left]_cvars
FairSpec == Spec /\ WF_cvars(RequestSteps)
EveryRequestEnds == (pc # "idle") ~> (pc = "idle")
\* the cache heals: immediately after a request returned data, a request for the same configuration is a HIT (it reads, it does
\* not generate) as long as no fault touches the file in between
HitAfterReturn == [][(pc = "read" /\ file[req] = Intact(req)) => (loaded' /\ out' = req) \/ pc' = "idle"]_cvars
==============================================================================
