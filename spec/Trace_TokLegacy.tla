---------------------------- MODULE Trace_TokLegacy ----------------------------
(* Use (C) for C07: observations of the REAL legacy / modular tokenizers, judged against TokLegacy.tla.

   record t = "rt"  (one maze x one legacy tokenizer configuration)
     mode, mgs (<<>> | <<n>>), maze (raw fields), lax ("" | reason), argmod (vias whose list argument was modified),
     mazemod (the maze differs from its value before the calls), resL/tokL = outcome and tokens of maze.as_tokens(legacy),
     resM/tokM = the same for MazeTokenizerModular.from_legacy(...), rp = the four re-parses
     [via \in {"legacy","modular"}, inp \in {"list","str"}, res, maze]  (str = the tokens joined by one blank)
   record t = "ds"  (MazeDataset.as_tokens)
     mode, via, limit (<<>> | <<k>>), join, n, mazes, res, shape, out (token lists; for join the harness's
     split of each returned string on single blanks), strs (the returned strings), per (per-maze tokens)

   Layer P (the property's statement):
     rt_<via>_<inp>_raises / _kind / _conn / _start / _end / _sol   the re-parsed maze is the original one
     legacy_as_tokens_raises, modular_as_tokens_raises
     equiv_outside_adj, equiv_adj_entries                           TokLegacy!Equivalent(tokL, tokM)
     dataset_raises, dataset_per_maze_raises, dataset_join_option, dataset_limit, dataset_item_differs
   Layer M (conformance of the real token streams to the TokLegacy grammar; never fails the check):
     M:legacy_not_emission, M:modular_not_emission, M:spec_parse_differs, M:dataset_item_not_emission,
     M:outside_premise, M:record_incomplete, M:harness_split,
     M:oblong_rt_<via>_<inp>_<field>  (round trip of an oblong maze: itself or padded to the square of side max(R, C)),
     M:from_tokens_modified_its_argument, M:tokenization_modified_the_maze, M:<lax>:<clause> (r.lax # "")
   Oblong mazes: the emission clauses (as_tokens raises, equiv_outside_adj, equiv_adj_entries) and the dataset clauses stay Layer P - the second
   sentence of the statement does not go through from_tokens. *)
EXTENDS TokLegacy, Json, IOUtils
Log == ndJsonDeserialize(IOEnv.VERIF_LOG)

FieldDiff(tag, m, y) ==
  (IF y.kind = m.kind THEN {} ELSE {tag \o "_kind"})
  \cup (IF y.R = m.R /\ y.C = m.C /\ y.conn = m.conn THEN {} ELSE {tag \o "_conn"})
  \cup (IF y.start = m.start THEN {} ELSE {tag \o "_start"})
  \cup (IF y.end = m.end THEN {} ELSE {tag \o "_end"})
  \cup (IF y.sol = m.sol THEN {} ELSE {tag \o "_sol"})

RpClauses(m, x) ==
  LET tag == "rt_" \o x.via \o "_" \o x.inp IN
  IF x.res # "ok" THEN {tag \o "_raises"} ELSE FieldDiff(tag, m, x.maze)

\* Oblong maze (R # C): from_tokens builds ONE-side square grids (docstring "only tested for square mazes"), so the
\* round trip lies outside the statement (TokLegacy!PadSq, TokLegacy_sqinfer.cfg) and is judged in Layer M only:
\* the re-parse must be the maze itself or the maze on the square grid of side max(R, C).
RpClausesOblong(m, x) ==
  LET tag == "M:oblong_rt_" \o x.via \o "_" \o x.inp IN
  IF x.res # "ok" THEN {tag \o "_raises"}
  ELSE IF FieldDiff(tag, m, x.maze) = {} THEN {} ELSE FieldDiff(tag, PadSq(m), x.maze)

\* r.lax # "": an input representation beyond the declared types (e.g. a non-boolean connection array): every clause
\* becomes Layer M, named "M:<lax>:<clause>"
Soft(r, S) == IF r.lax = "" THEN S ELSE {"M:" \o r.lax \o ":" \o c : c \in S}

RtClauses(r) ==
  LET ck == ModeCoord(r.mode)  m == r.maze  E == EdgesOf(r.maze)
      okL == r.resL = "ok"  okM == r.resM = "ok"
      want == (IF okL THEN {<<"legacy", "list">>, <<"legacy", "str">>} ELSE {})
              \cup (IF okM THEN {<<"modular", "list">>, <<"modular", "str">>} ELSE {})
  IN
  IF ~(r.mode \in Modes /\ WellShaped(m.R, m.C, m.conn) /\ Premise(m)) THEN {"M:outside_premise"}
  ELSE Soft(r,
    (IF okL THEN {} ELSE {"legacy_as_tokens_raises"})
    \cup (IF okM THEN {} ELSE {"modular_as_tokens_raises"})
    \cup (IF {<<r.rp[k].via, r.rp[k].inp>> : k \in 1..Len(r.rp)} = want /\ Len(r.rp) = Cardinality(want)
          THEN {} ELSE {"M:record_incomplete"})
    \cup UNION {IF m.R = m.C THEN RpClauses(m, r.rp[k]) ELSE RpClausesOblong(m, r.rp[k]) : k \in 1..Len(r.rp)}
    \cup (IF ~(okL /\ okM) THEN {}
          ELSE IF ~EquivOutside(r.tokL, r.tokM) THEN {"equiv_outside_adj"}
          ELSE IF ~EquivInside(ck, r.tokL, r.tokM) THEN {"equiv_adj_entries"} ELSE {})
    \cup (IF ~okL THEN {}
          ELSE LET rd == Read(ck, r.tokL) IN
               (IF InEmitRd(rd, m, E) THEN {} ELSE {"M:legacy_not_emission"})
               \cup (IF ParseRd(rd) = [kind |-> m.kind, R |-> m.R, C |-> m.C, conn |-> m.conn, start |-> m.start, end |-> m.end, sol |-> m.sol]
                     THEN {} ELSE {"M:spec_parse_differs"}))
    \cup (IF ~okM THEN {}
          ELSE IF InEmitRd(Read(ck, r.tokM), m, E) THEN {} ELSE {"M:modular_not_emission"})
    \* side effects on the caller's objects (beyond the statement, Layer M): the token list handed to from_tokens and
    \* the maze handed to as_tokens are compared with their state before the calls by the harness
    \cup (IF r.argmod = <<>> THEN {} ELSE {"M:from_tokens_modified_its_argument"})
    \cup (IF r.mazemod THEN {"M:tokenization_modified_the_maze"} ELSE {}))

DsClauses(r) ==
  LET ck == ModeCoord(r.mode)  k == Take(r.n, r.limit) IN
  IF ~(r.mode \in Modes /\ Len(r.mazes) = r.n
       /\ \A i \in 1..r.n : WellShaped(r.mazes[i].R, r.mazes[i].C, r.mazes[i].conn) /\ Premise(r.mazes[i]))
  THEN {"M:outside_premise"}
  ELSE IF r.perres # "ok" \/ Len(r.per) # r.n THEN {"dataset_per_maze_raises"}
  ELSE IF r.res # "ok" THEN {"dataset_raises"}
  ELSE IF r.shape # "empty" /\ r.shape # (IF r.join THEN "strs" ELSE "lists") THEN {"dataset_join_option"}
  ELSE (IF DatasetOK(ck, r.n, r.limit, r.join, r.out, r.strs, r.per) THEN {}
        ELSE IF Len(r.out) # k THEN {"dataset_limit"}
        ELSE IF \E i \in 1..k : ~Equivalent(ck, r.out[i], r.per[i]) THEN {"dataset_item_differs"}
        ELSE {"M:harness_split"})
       \cup (IF Len(r.out) = k /\ \E i \in 1..k : ~InEmit(ck, r.mazes[i], r.out[i]) THEN {"M:dataset_item_not_emission"} ELSE {})

Clauses(r) == IF r.t = "rt" THEN RtClauses(r) ELSE IF r.t = "ds" THEN DsClauses(r) ELSE {"M:unknown_record"}

VARIABLES l, bad
Init == l = 1 /\ bad = {}
Next == /\ l <= Len(Log) /\ l' = l + 1
        /\ bad' = bad \cup (LET cs == Clauses(Log[l]) IN IF cs = {} THEN {} ELSE {[id |-> Log[l].id, c |-> cs]})
Spec == Init /\ [][Next]_<<l, bad>>
Done == (l = Len(Log) + 1) =>
          ndJsonSerialize(IOEnv.VERIF_OUT, <<[id |-> -1, c |-> {ToString(Len(Log))}]>> \o SetToSeq(bad))
=========================================================================
