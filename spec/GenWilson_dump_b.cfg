CONSTANTS Shapes <- Shapes3x3
SPECIFICATION Spec
CHECK_DEADLOCK FALSE
