CONSTANTS Shapes <- ShapesTiny
CONSTANTS Variant = "nbr8"
SPECIFICATION Spec
INVARIANT IsolatedMeans4Nbr
CHECK_DEADLOCK FALSE
