CONSTANTS Shapes <- Shapes3x3
SPECIFICATION Spec
INVARIANT Sound
INVARIANT Complete
INVARIANT SelfQuery
INVARIANT ClosedExact
INVARIANT MeasureNat
PROPERTY Terminates
CHECK_DEADLOCK FALSE
