CONSTANTS Shapes <- Shapes3x3
SPECIFICATION Spec
INVARIANT Sound
INVARIANT Complete
INVARIANT SelfQuery
INVARIANT ClosedExact
CHECK_DEADLOCK FALSE
