SPECIFICATION Spec
CONSTANTS
  Shapes <- Scope2x3
  OtherShapes <- ScopeOther
  HashVariant = "conn_sol"
  Parts = {"pairs"}
INVARIANTS LabelSound ScopeWellFormed EqLaws HashConsistent CtorSound DsSound
CHECK_DEADLOCK FALSE
