CONSTANTS Shapes <- Shapes3x3
SPECIFICATION Spec
INVARIANT InGridInv
INVARIANT ForestOnVisited
INVARIANT WalkSimple
INVARIANT DoneSpanning
CHECK_DEADLOCK FALSE
