---------------------------- MODULE TokLegacy ----------------------------
(* C07 - the legacy "AOTP" token grammar (Adjacency list, Origin, Target, Path), stated explicitly and
   independently of the implementation.

     <ADJLIST_START> entry* <ADJLIST_END>
     [ <ORIGIN_START> coord <ORIGIN_END> <TARGET_START> coord <TARGET_END>          (targeted, solved)
       [ <PATH_START> coord+ <PATH_END> ] ]                                          (solved)
     entry ::= coord <--> coord ;
     coord ::= "(i,j)"                       one token          (UT  : AOTP_UT_rasterized, AOTP_UT_uniform)
             | "(" "i" "," "j" ")"           five tokens        (CTT : AOTP_CTT_indexed)

   The two UT modes differ only in the numbering of the vocabulary, not in the tokens; max_grid_size only
   bounds the vocabulary.  The modular tokenizers declared equivalent (MazeTokenizerModular.from_legacy)
   must speak exactly this grammar.

   A maze value is the raw record logged by the harness (harness/mz.py proj):
     [kind, R, C, conn, start, end, sol]   with start = end = <<>> for a plain LatticeMaze and
                                           sol = <<>> unless kind = "SolvedMaze".

   Emit(ck, m)          the SET of admissible token sequences of m: the adjacency entries are the
                        connections of m, each exactly once, in ANY order and EITHER orientation;
   Parse(ck, toks)      the maze value denoted by a token sequence; the grid size is not written in the
                        tokens, so it is inferred as (largest row index + 1) x (largest column index + 1)
                        of the adjacency entries - this is why the property has the premise
   Premise(m)           every row index and every column index occurs in some connection;
   Equivalent(ck,a,b)   equal outside the adjacency region, equal as MULTISETS of unordered edges inside;
   DatasetTokens(...)   per-maze emission of each maze in order, honouring limit and join.

   Theorems model-checked by TLC (TokLegacy_*.cfg):  Premise(m) => Parse(Emit(m)) = m  (and the premise is
   necessary: TokLegacy_nopremise.cfg must FAIL), InEmit is exactly membership in Emit, Equivalent relates
   all emissions of one maze and separates the emissions of different mazes. *)
EXTENDS Lattice, TLC, SequencesExt

\* ------------------------------------------------------------------ vocabulary
AS == "<ADJLIST_START>"   AE == "<ADJLIST_END>"
OS == "<ORIGIN_START>"    OE == "<ORIGIN_END>"
TS == "<TARGET_START>"    TE == "<TARGET_END>"
PS == "<PATH_START>"      PE == "<PATH_END>"
Delims == <<AS, AE, OS, OE, TS, TE, PS, PE>>
DelimSet == {AS, AE, OS, OE, TS, TE, PS, PE}
Connector == "<-->"
EndLine == ";"

KPlain == "LatticeMaze"   KTarg == "TargetedLatticeMaze"   KSolved == "SolvedMaze"
Kinds == {KPlain, KTarg, KSolved}
Modes == {"AOTP_UT_rasterized", "AOTP_UT_uniform", "AOTP_CTT_indexed"}
ModeCoord(mode) == IF mode = "AOTP_CTT_indexed" THEN "CTT" ELSE "UT"
NDelims(kind) == IF kind = KPlain THEN 2 ELSE IF kind = KTarg THEN 6 ELSE 8

UTTok(c) == "(" \o ToString(c[1]) \o "," \o ToString(c[2]) \o ")"
CoordToks(ck, c) == IF ck = "UT" THEN <<UTTok(c)>> ELSE <<"(", ToString(c[1]), ",", ToString(c[2]), ")">>
CoordWidth(ck) == IF ck = "UT" THEN 1 ELSE 5
EntryWidth(ck) == 2 * CoordWidth(ck) + 2
EntryToks(ck, a, b) == CoordToks(ck, a) \o <<Connector>> \o CoordToks(ck, b) \o <<EndLine>>

\* ------------------------------------------------------------------ maze values
\* an unordered lattice edge is kept as the pair <<a, b>> with a lexicographically first
CellLeq(a, b) == a[1] < b[1] \/ (a[1] = b[1] /\ a[2] <= b[2])
NormEdge(a, b) == IF CellLeq(a, b) THEN <<a, b>> ELSE <<b, a>>
EdgeOfSlot(s) == IF s[1] = 0 THEN <<(<<s[2], s[3]>>), (<<s[2] + 1, s[3]>>)>> ELSE <<(<<s[2], s[3]>>), (<<s[2], s[3] + 1>>)>>
SlotOfEdge(e) == IF e[1][1] # e[2][1] THEN <<0, e[1][1], e[1][2]>> ELSE <<1, e[1][1], e[1][2]>>
EdgesOf(m) == {EdgeOfSlot(s) : s \in SetSlots(m.R, m.C, m.conn)}

\* the statement's premise: every row and every column index occurs in some connection
Premise(m) ==
  LET E == EdgesOf(m)
      rows == {e[1][1] : e \in E} \cup {e[2][1] : e \in E}
      cols == {e[1][2] : e \in E} \cup {e[2][2] : e \in E}
  IN rows = 0..(m.R - 1) /\ cols = 0..(m.C - 1)

MazeVal(kind, R, C, E, s, t, sol) ==
  [kind |-> kind, R |-> R, C |-> C, conn |-> ConnOfSlots(R, C, {SlotOfEdge(e) : e \in E}),
   start |-> s, end |-> t, sol |-> sol]
IllFormed == [kind |-> "ill-formed", R |-> 0, C |-> 0, conn |-> <<>>, start |-> <<>>, end |-> <<>>, sol |-> <<>>]

\* ------------------------------------------------------------------ Emit: the set of admissible token sequences
TailToks(ck, m) ==
  IF m.kind = KPlain THEN <<>>
  ELSE <<OS>> \o CoordToks(ck, m.start) \o <<OE, TS>> \o CoordToks(ck, m.end) \o <<TE>>
       \o (IF m.kind = KSolved
           THEN <<PS>> \o FlattenSeq([k \in 1..Len(m.sol) |-> CoordToks(ck, m.sol[k])]) \o <<PE>>
           ELSE <<>>)
\* q: a sequence of normalized edges, f: which of them are written second-endpoint-first
AdjToks(ck, q, f) ==
  FlattenSeq([k \in 1..Len(q) |-> IF f[k] THEN EntryToks(ck, q[k][2], q[k][1]) ELSE EntryToks(ck, q[k][1], q[k][2])])
Wrap(ck, m, adj) == <<AS>> \o adj \o <<AE>> \o TailToks(ck, m)
Emit(ck, m) ==
  LET E == EdgesOf(m)  n == Cardinality(E)
  IN {Wrap(ck, m, AdjToks(ck, q, f)) : q \in SetToSeqs(E), f \in [1..n -> BOOLEAN]}
\* one fixed representative (used where a single emission per maze is enough)
EdgeLess(x, y) == IF x[1] # y[1] THEN CellLeq(x[1], y[1]) ELSE (x[2] # y[2] /\ CellLeq(x[2], y[2]))
CanonEmit(ck, m) ==
  LET q == SetToSortSeq(EdgesOf(m), EdgeLess)
  IN Wrap(ck, m, AdjToks(ck, q, [k \in 1..Len(q) |-> FALSE]))

\* ------------------------------------------------------------------ reading tokens
\* Coordinate tokens are decoded by table lookup (TLC cannot look inside a string): all strings
\* "(i,j)" / "i" for indices below CoordBound are built once.
CoordBound == 50
Idx == 0..(CoordBound - 1)
NumSeq == [k \in 1..CoordBound |-> ToString(k - 1)]
NumOf == [s \in {NumSeq[k] : k \in 1..CoordBound} |-> (CHOOSE k \in 1..CoordBound : NumSeq[k] = s) - 1]
UTCellSeq == SetToSeq(Idx \X Idx)
UTStrSeq == [k \in 1..Len(UTCellSeq) |-> UTTok(UTCellSeq[k])]
UTOf == [s \in {UTStrSeq[k] : k \in 1..Len(UTStrSeq)} |-> UTCellSeq[CHOOSE k \in 1..Len(UTStrSeq) : UTStrSeq[k] = s]]
UTDom == DOMAIN UTOf
NumDom == DOMAIN NumOf

\* the cell written at positions p .. p+CoordWidth-1 of toks, or <<>> when those tokens are not a coordinate
CoordAt(ck, toks, p) ==
  IF ck = "UT" THEN (IF toks[p] \in UTDom THEN UTOf[toks[p]] ELSE <<>>)
  ELSE IF /\ toks[p] = "(" /\ toks[p + 2] = "," /\ toks[p + 4] = ")"
          /\ toks[p + 1] \in NumDom /\ toks[p + 3] \in NumDom
       THEN <<NumOf[toks[p + 1]], NumOf[toks[p + 3]]>> ELSE <<>>

\* cells written in toks[lo..hi] (a whole number of coordinates), <<>> entries for undecodable ones
CoordsIn(ck, toks, lo, hi) ==
  LET w == CoordWidth(ck) IN [k \in 1..((hi - lo + 1) \div w) |-> CoordAt(ck, toks, lo + (k - 1) * w)]

\* the entry starting at p, as a normalized edge, or <<>> when it is not  coord <--> coord ;
\* (lattice adjacency of the two cells is part of the grammar only when `lattice`)
EntryAt(ck, toks, p, lattice) ==
  LET w == CoordWidth(ck)  a == CoordAt(ck, toks, p)  b == CoordAt(ck, toks, p + w + 1) IN
  IF a # <<>> /\ b # <<>> /\ toks[p + w] = Connector /\ toks[p + 2 * w + 1] = EndLine /\ (~lattice \/ Manhattan(a, b) = 1)
  THEN NormEdge(a, b) ELSE <<>>

\* Read: the structure of a token sequence under the grammar
\*   ok, kind, edges (set), nent (number of entries), start, end, sol
NotRead == [ok |-> FALSE, kind |-> "", edges |-> {}, nent |-> 0, start |-> <<>>, end |-> <<>>, sol |-> <<>>]
Read(ck, toks) ==
  LET n == Len(toks)
      dpos == SetToSortSeq({i \in 1..n : toks[i] \in DelimSet}, <)
      nd == Len(dpos)
      w == CoordWidth(ck)  ew == EntryWidth(ck)
  IN
  IF ~(/\ nd \in {2, 6, 8} /\ dpos[1] = 1 /\ dpos[nd] = n
       /\ \A k \in 1..nd : toks[dpos[k]] = Delims[k]) THEN NotRead
  ELSE
  LET na == dpos[2] - 2 IN
  IF na % ew # 0 THEN NotRead
  ELSE
  LET ne == na \div ew
      edges == {EntryAt(ck, toks, 2 + (k - 1) * ew, TRUE) : k \in 1..ne}
      kind == IF nd = 2 THEN KPlain ELSE IF nd = 6 THEN KTarg ELSE KSolved
      org == IF nd >= 6 /\ dpos[4] - dpos[3] - 1 = w THEN CoordAt(ck, toks, dpos[3] + 1) ELSE <<>>
      tgt == IF nd >= 6 /\ dpos[6] - dpos[5] - 1 = w THEN CoordAt(ck, toks, dpos[5] + 1) ELSE <<>>
      np == IF nd = 8 THEN dpos[8] - dpos[7] - 1 ELSE 0
      sol == IF nd = 8 /\ np % w = 0 THEN CoordsIn(ck, toks, dpos[7] + 1, dpos[8] - 1) ELSE <<>>
  IN
  IF \/ <<>> \in edges
     \/ nd >= 6 /\ (org = <<>> \/ tgt = <<>> \/ dpos[4] + 1 # dpos[5])
     \/ nd = 8 /\ (np = 0 \/ np % w # 0 \/ dpos[6] + 1 # dpos[7] \/ \E k \in 1..Len(sol) : sol[k] = <<>>)
     \/ dpos[2] + 1 # (IF nd = 2 THEN n + 1 ELSE dpos[3])
  THEN NotRead
  ELSE [ok |-> TRUE, kind |-> kind, edges |-> edges, nent |-> ne, start |-> org, end |-> tgt, sol |-> sol]

MaxOfSet(S) == CHOOSE x \in S : \A y \in S : y <= x
\* grid inference: the smallest grid containing every index that occurs in the adjacency entries
InferR(E) == IF E = {} THEN 0 ELSE 1 + MaxOfSet({e[1][1] : e \in E} \cup {e[2][1] : e \in E})
InferC(E) == IF E = {} THEN 0 ELSE 1 + MaxOfSet({e[1][2] : e \in E} \cup {e[2][2] : e \in E})

ParseRd(rd) ==
  IF ~rd.ok THEN IllFormed
  ELSE MazeVal(rd.kind, InferR(rd.edges), InferC(rd.edges), rd.edges, rd.start, rd.end, rd.sol)
Parse(ck, toks) == ParseRd(Read(ck, toks))

\* The implementation's grid inference (LatticeMaze.from_adj_list: "only tested for square mazes"): ONE side,
\* largest index of either axis + 1.  PadSq(m) is m on the square grid of side max(R, C) (no new connection);
\* for a square maze PadSq(m) = m, for an oblong one the re-parse of the real code is PadSq(m), which is why the
\* round trip of the statement is judged on square mazes only (TokLegacy_sqinfer.cfg: SquareRoundTrip must FAIL).
PadSq(m) ==
  LET n == MaxI(m.R, m.C) IN
  [m EXCEPT !.R = n, !.C = n,
            !.conn = [d \in 1..2 |-> [i \in 1..n |-> [j \in 1..n |-> IF i <= m.R /\ j <= m.C THEN m.conn[d][i][j] ELSE 0]]]]
ParseSqRd(rd) == IF ~rd.ok THEN IllFormed ELSE PadSq(ParseRd(rd))
ParseSq(ck, toks) == ParseSqRd(Read(ck, toks))

\* toks \in Emit(ck, m), decided without enumerating Emit (usable on 20x20 mazes);  rd = Read(ck, toks), E = EdgesOf(m)
InEmitRd(rd, m, E) ==
  /\ rd.ok /\ rd.kind = m.kind
  /\ rd.edges = E /\ rd.nent = Cardinality(E)
  /\ rd.start = m.start /\ rd.end = m.end /\ rd.sol = m.sol
InEmit(ck, m, toks) == InEmitRd(Read(ck, toks), m, EdgesOf(m))

\* ------------------------------------------------------------------ Equivalent
FirstPos(toks, w) == LET S == {i \in 1..Len(toks) : toks[i] = w} IN IF S = {} THEN 0 ELSE CHOOSE i \in S : \A j \in S : i <= j
\* entries of the adjacency region toks[lo..hi] as a sequence of normalized edges; <<>> marks a bad entry
EntrySeq(ck, toks, lo, hi) ==
  LET ew == EntryWidth(ck) IN [k \in 1..((hi - lo + 1) \div ew) |-> EntryAt(ck, toks, lo + (k - 1) * ew, FALSE)]
CountIn(q, x) == Cardinality({k \in 1..Len(q) : q[k] = x})
SameBag(q1, q2) ==
  LET s1 == SeqToSet(q1)  s2 == SeqToSet(q2) IN
  /\ Len(q1) = Len(q2) /\ s1 = s2
  /\ (Cardinality(s1) = Len(q1) \/ \A x \in s1 : CountIn(q1, x) = CountIn(q2, x))
EquivOutside(t1, t2) ==
  LET s1 == FirstPos(t1, AS)  e1 == FirstPos(t1, AE)  s2 == FirstPos(t2, AS)  e2 == FirstPos(t2, AE) IN
  /\ s1 > 0 /\ s2 > 0 /\ e1 > s1 /\ e2 > s2
  /\ SubSeq(t1, 1, s1) = SubSeq(t2, 1, s2)
  /\ SubSeq(t1, e1, Len(t1)) = SubSeq(t2, e2, Len(t2))
\* only meaningful when EquivOutside holds
EquivInside(ck, t1, t2) ==
  LET s1 == FirstPos(t1, AS)  e1 == FirstPos(t1, AE)  s2 == FirstPos(t2, AS)  e2 == FirstPos(t2, AE)
      ew == EntryWidth(ck) IN
  \/ SubSeq(t1, s1 + 1, e1 - 1) = SubSeq(t2, s2 + 1, e2 - 1)
  \/ /\ (e1 - s1 - 1) % ew = 0 /\ (e2 - s2 - 1) % ew = 0
     /\ LET q1 == EntrySeq(ck, t1, s1 + 1, e1 - 1)  q2 == EntrySeq(ck, t2, s2 + 1, e2 - 1) IN
        /\ <<>> \notin SeqToSet(q1) /\ <<>> \notin SeqToSet(q2)
        /\ SameBag(q1, q2)
Equivalent(ck, t1, t2) == EquivOutside(t1, t2) /\ EquivInside(ck, t1, t2)

\* ------------------------------------------------------------------ dataset level
\* limit: <<>> (None) or <<k>> with k >= 0
Take(n, limit) == IF limit = <<>> THEN n ELSE MinI(n, limit[1])
JoinSp(toks) == IF toks = <<>> THEN "" ELSE FoldLeft(LAMBDA acc, t : acc \o " " \o t, toks[1], Tail(toks))
\* the admissible outputs: one emission per maze, the first Take(n, limit) mazes in order (joined when asked)
DatasetLists(ck, ds, limit) ==
  LET k == Take(Len(ds), limit)
      U == UNION {Emit(ck, ds[i]) : i \in 1..k}
  IN {f \in [1..k -> U] : \A i \in 1..k : f[i] \in Emit(ck, ds[i])}
JoinAll(f) == [i \in 1..Len(f) |-> JoinSp(f[i])]
DatasetTokens(ck, ds, limit, join) ==
  IF join THEN {JoinAll(f) : f \in DatasetLists(ck, ds, limit)} ELSE DatasetLists(ck, ds, limit)
\* the oracle's acceptance predicate for an observed output `out` (token lists; for join = TRUE the
\* harness logs the strings `strs` and their split on single blanks `out`, re-joined and compared here)
\* against separately observed per-maze tokenizations `per`
DatasetOK(ck, n, limit, join, out, strs, per) ==
  /\ Len(out) = Take(n, limit)
  /\ Len(out) <= Len(per)
  /\ join => (Len(strs) = Len(out) /\ \A i \in 1..Len(out) : JoinSp(out[i]) = strs[i])
  /\ \A i \in 1..Len(out) : Equivalent(ck, out[i], per[i])
=======================================================================
