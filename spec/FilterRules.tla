----------------------------- MODULE FilterRules -----------------------------
(* The documented selection rule of every built-in dataset filter, stated ONCE over an arbitrary maze
   representation: the accessors (solution length L(_), start-end manhattan distance D(_), near-duplicate
   test ND(_,_,_,_)) are operator parameters.  Filters.tla instantiates them with abstract mazes (design
   level), Trace_Filters.tla with the raw arrays recorded from the real library. *)
EXTENDS Naturals, Integers, Sequences, FiniteSets, SequencesExt
SelSeq(q, keep) == LET F[i \in 0..Len(q)] == IF i = 0 THEN <<>> ELSE IF keep[i] THEN Append(F[i-1], q[i]) ELSE F[i-1] IN F[Len(q)]
KeepPathLength(L(_), q, k) == [i \in 1..Len(q) |-> L(q[i]) >= k]                   \* minimum solution length
KeepDistance(D(_), q, k) == [i \in 1..Len(q) |-> D(q[i]) >= k]                     \* minimum start-end manhattan distance
KeepTruncate(q, k) == [i \in 1..Len(q) |-> i <= k]                                 \* first max_count items
KeepFirstOcc(q) == [i \in 1..Len(q) |-> ~ \E j \in 1..(i-1) : q[j] = q[i]]          \* exact duplicates: keep first occurrences
KeepNoLaterNear(ND(_, _, _, _), q, ta, tb) ==                                      \* keep a maze iff no LATER maze is within the thresholds
  [i \in 1..Len(q) |-> ~ \E j \in (i+1)..Len(q) : ND(q[i], q[j], ta, tb)]
\* truncated p-th percentile (p = 0..100) of the solution lengths with numpy's linear interpolation, times 100
SortedLens(L(_), q) == SortSeq([i \in 1..Len(q) |-> L(q[i])], LAMBDA x, y : x < y)
CutNum(L(_), q, p) == LET S == SortedLens(L, q)  n == Len(q)  num == p * (n - 1)  lo == num \div 100  rem == num % 100
                          hi == IF lo + 2 <= n THEN lo + 2 ELSE n IN
                      <<S[lo + 1] * 100 + rem * (S[hi] - S[lo + 1]), rem>>
Cutoff(L(_), q, p) == CutNum(L, q, p)[1] \div 100
\* numpy interpolates in floating point: when the exact value is an integer reached by interpolation the float may
\* fall just below it, so both truncations are admissible there
Cutoffs(L(_), q, p) == LET cn == CutNum(L, q, p) IN
                       IF cn[2] # 0 /\ cn[1] % 100 = 0 THEN {cn[1] \div 100, cn[1] \div 100 - 1} ELSE {cn[1] \div 100}
KeepAbove(L(_), q, c) == [i \in 1..Len(q) |-> L(q[i]) > c]                          \* strictly longer than the cutoff
==============================================================================
