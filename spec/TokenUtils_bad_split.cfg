\* deliberately broken / refuted variant: TLC must report a violation of SplitterIsDefinition
SPECIFICATION Spec
CONSTANTS
  Machines = {"split"}
  LexAlphabet = {"(", ")", ",", " ", "0", "1", "9", "a"}
  FullLex = 3
  MaxLex = 5
  SplitAlphabet = {"(", ")", " ", "0", ","}
  MaxSplit = 4
  MaxTB = 4
  FPCoord = "UT"
  Broken = "split_no_rewind"
INVARIANTS SplitterIsDefinition
CHECK_DEADLOCK FALSE
