CONSTANTS Shapes <- ShapesTiny
CONSTANTS Variant = "none"
SPECIFICATION TSpec
INVARIANT Done
CHECK_DEADLOCK FALSE
