---------------------------- MODULE TokMod ----------------------------
(* C06 - MazeTokenizerModular is a faithful, decodable encoding of the maze.

   PART 1  parameter record of a tokenizer (what the harness reads off the real object's fields) and
           the three exhaustive element spaces (9 coordinate, 216 adjacency-list, 1008 path).
   PART 2  coordinate codec (UT / CTT), encoder AND decoder.
   PART 3  adjacency region: the record ENCODER `EdgeRec` (model of what a tokenizer may emit) and an
           independent record DECODER configured only from the parameter record and the grid shape;
           `AdjClauses` judges an observed region by decoding it and comparing the decoded
           (edge, mark, orientation) multiset with the maze: order is free, orientation is free only
           for RandomCoords.
   PART 4  origin / target regions are decoded to cells; the path region is deterministic, so the
           spec's own encoding of the solution steps is compared as a sequence.
   PART 5  region grammar (eight delimiters, each once, ordered, contiguous, trimmed by maze kind),
           vocabulary membership, verdict of a whole prompt.
   PART 6  design-level state machine model-checked by TLC (TokMod_small.cfg / TokMod_full.cfg, split
           over parallel runs by parameter index; TokMod_bug_*.cfg = broken emitters TLC must reject):
           a tokenizer emits the selected edges in ANY order (and, where allowed, orientation);
           every such stream is accepted and decodes to exactly the maze; the same stream is
           rejected for every other maze; any single-record change / drop / duplication is
           rejected; path streams chain, stay in the vocabulary and (Singles) determine the solution.

   Raw layouts as in Lattice.tla: conn[d][i][j] 0/1, cells <<row, col>> 0-based. *)
EXTENDS Lattice, TLC, SequencesExt, IOUtils, VocabSet

B(x) == IF x THEN 1 ELSE 0
Opt(x, tok) == IF x THEN <<tok>> ELSE <<>>

(* ------------------------------------------------------------------ PART 1: parameter spaces *)
CoordSpace == {[k |-> "UT", pre |-> FALSE, intra |-> FALSE, post |-> FALSE]}
              \cup {[k |-> "CTT", pre |-> a, intra |-> b, post |-> c] : a, b, c \in BOOLEAN}
SubsetSpace == {<<"AllLatticeEdges", FALSE>>, <<"ConnectionEdges", FALSE>>, <<"ConnectionEdges", TRUE>>}
PermSpace == {"SortedCoords", "RandomCoords", "BothCoords"}
AdjClsSpace == {"AdjListCoord", "AdjListCardinal"}
AdjSpace == {[cls |-> c, pre |-> FALSE, post |-> po, shuffle |-> sh, grouping |-> "Ungrouped", ord |-> o,
              subset |-> su[1], walls |-> su[2], perm |-> pe] :
             c \in AdjClsSpace, po \in BOOLEAN, sh \in BOOLEAN, o \in 0..2, su \in SubsetSpace, pe \in PermSpace}
StepKinds == {"Coord", "Cardinal", "Relative", "Distance"}
NoRepeat(s) == \A i, j \in 1..Len(s) : i # j => s[i] # s[j]
ValidSteps(s) == Len(s) \in 1..4 /\ (\A i \in 1..Len(s) : s[i] \in StepKinds) /\ NoRepeat(s) /\ s # <<"Distance">>
StepSeqs == {s \in UNION {[1..n -> StepKinds] : n \in 1..4} : ValidSteps(s)}
SizeSpace == {"Singles", "Forks"}
PathSpace == {[size |-> z, steps |-> s, pre |-> a, intra |-> b, post |-> c] :
              z \in SizeSpace, s \in StepSeqs, a \in BOOLEAN, b \in BOOLEAN, c \in BOOLEAN}
SpacesWellFormed == Cardinality(CoordSpace) = 9 /\ Cardinality(AdjSpace) = 216
                    /\ Cardinality(StepSeqs) = 63 /\ Cardinality(PathSpace) = 1008

\* supported = inside the property's quantifier (ByLeadingCoord, Straightaways, pre=T adjacency ... are not)
SupportedCoord(ct) == ct.k \in {"UT", "CTT"} /\ (ct.k = "UT" => ~ct.pre /\ ~ct.intra /\ ~ct.post)
SupportedAdj(at) == /\ at.cls \in AdjClsSpace /\ at.pre = FALSE /\ at.grouping = "Ungrouped" /\ at.ord \in 0..2
                    /\ <<at.subset, at.walls>> \in SubsetSpace /\ at.perm \in PermSpace
SupportedPath(pt) == pt.cls = "StepSequence" /\ pt.size \in SizeSpace /\ ValidSteps(pt.steps)

(* ------------------------------------------------------------------ PART 2: coordinate codec *)
NoCell == <<-1, -1>>
UT(c) == "(" \o ToString(c[1]) \o "," \o ToString(c[2]) \o ")"
CoordToks(ct, c) ==
  IF ct.k = "UT" THEN <<UT(c)>>
  ELSE Opt(ct.pre, "(") \o <<ToString(c[1])>> \o Opt(ct.intra, ",") \o <<ToString(c[2])>> \o Opt(ct.post, ")")
CW(ct) == IF ct.k = "UT" THEN 1 ELSE 2 + B(ct.pre) + B(ct.intra) + B(ct.post)

\* inverse tables token -> value (built once per TLC run; the decoder never asks the code)
InvOf(P) == [s \in {p[1] : p \in P} |-> (CHOOSE p \in P : p[1] = s)[2]]
IntInv == InvOf({<<ToString(i), i>> : i \in 0..(VMaxCTT - 1)})
UTInv(n) == InvOf({<<UT(<<i, j>>), <<i, j>>>> : i \in 0..(n-1), j \in 0..(n-1)})
InvTables(n) == [ut |-> UTInv(n), int |-> IntInv]

\* the cell written at q[o+1 .. o+CW(ct)], or NoCell when those tokens are not a coordinate
DecodeCoordAt(ct, inv, q, o) ==
  IF o < 0 \/ o + CW(ct) > Len(q) THEN NoCell
  ELSE IF ct.k = "UT" THEN (IF q[o+1] \in DOMAIN inv.ut THEN inv.ut[q[o+1]] ELSE NoCell)
  ELSE LET p1 == o + 1 + B(ct.pre)   p2 == p1 + 1 + B(ct.intra) IN
       IF /\ (ct.pre => q[o+1] = "(") /\ (ct.intra => q[p1+1] = ",") /\ (ct.post => q[p2+1] = ")")
          /\ q[p1] \in DOMAIN inv.int /\ q[p2] \in DOMAIN inv.int
       THEN <<inv.int[q[p1]], inv.int[q[p2]]>> ELSE NoCell

\* rows grow southwards, columns eastwards
Cardinal(a, b) == IF b = <<a[1]-1, a[2]>> THEN "NORTH" ELSE IF b = <<a[1]+1, a[2]>> THEN "SOUTH"
                  ELSE IF b = <<a[1], a[2]-1>> THEN "WEST" ELSE IF b = <<a[1], a[2]+1>> THEN "EAST" ELSE "<UNK>"
CardinalDelta(w) == IF w = "NORTH" THEN <<-1, 0>> ELSE IF w = "SOUTH" THEN <<1, 0>>
                    ELSE IF w = "WEST" THEN <<0, -1>> ELSE IF w = "EAST" THEN <<0, 1>> ELSE <<0, 0>>
\* first-person direction of the move c -> n for an agent that arrived from p (LEFT = counter-clockwise)
Relative(p, c, n) ==
  IF c = n THEN "STAY" ELSE IF p = n THEN "BACKWARD"
  ELSE LET d0 == <<c[1]-p[1], c[2]-p[2]>>  d1 == <<n[1]-c[1], n[2]-c[2]>>  x == d0[1]*d1[2] - d0[2]*d1[1] IN
       IF d0 = d1 THEN "FORWARD" ELSE IF x = 1 THEN "LEFT" ELSE IF x = -1 THEN "RIGHT" ELSE "<UNK>"

(* ------------------------------------------------------------------ PART 3: adjacency region *)
\* lattice edges in canonical form <<a, b>>, a the lesser endpoint
LEdges(R, C) == {<<<<i, j>>, <<i+1, j>>>> : i \in 0..(R-2), j \in 0..(C-1)}
                \cup {<<<<i, j>>, <<i, j+1>>>> : i \in 0..(R-1), j \in 0..(C-2)}
EdgeConn(conn, e) == IF e[1][1] = e[2][1] THEN conn[2][e[1][1]+1][e[1][2]+1] = 1
                                          ELSE conn[1][e[1][1]+1][e[1][2]+1] = 1
ConnSet(R, C, conn) == {e \in LEdges(R, C) : EdgeConn(conn, e)}
SelectedEdges(at, R, C, conn) ==
  IF at.subset = "AllLatticeEdges" THEN LEdges(R, C)
  ELSE IF at.walls THEN {e \in LEdges(R, C) : ~EdgeConn(conn, e)} ELSE ConnSet(R, C, conn)
Canon(a, b) == IF a[1] < b[1] \/ (a[1] = b[1] /\ a[2] < b[2]) THEN <<a, b>> ELSE <<b, a>>

\* ENCODER of one edge record with leading cell a, trailing cell b (what a tokenizer may emit)
MarkTok(isc) == IF isc THEN "<-->" ELSE "<XX>"
EdgeRec(ct, at, a, b, isc) ==
  LET lead == CoordToks(ct, a)   mark == <<MarkTok(isc)>>
      trail == IF at.cls = "AdjListCoord" THEN CoordToks(ct, b) ELSE <<Cardinal(a, b)>>
      body == IF at.ord = 0 THEN mark \o lead \o trail
              ELSE IF at.ord = 1 THEN lead \o mark \o trail ELSE lead \o trail \o mark
  IN Opt(at.pre, "ADJ_GROUP") \o body \o Opt(at.post, ";")
TrailW(ct, at) == IF at.cls = "AdjListCoord" THEN CW(ct) ELSE 1
RecW(ct, at) == B(at.pre) + CW(ct) + 1 + TrailW(ct, at) + B(at.post)

\* DECODER of the record at q[o+1 .. o+RecW]: positions follow from the parameters alone
DecodeRecAt(ct, at, inv, R, C, q, o) ==
  LET base == o + B(at.pre)   cw == CW(ct)   wt == TrailW(ct, at)
      leadoff == IF at.ord = 0 THEN base + 1 ELSE base
      trailoff == IF at.ord = 2 THEN base + cw ELSE base + cw + 1
      markpos == IF at.ord = 0 THEN base + 1 ELSE IF at.ord = 1 THEN base + cw + 1 ELSE base + cw + wt + 1
      a == DecodeCoordAt(ct, inv, q, leadoff)
      b == IF at.cls = "AdjListCoord" THEN DecodeCoordAt(ct, inv, q, trailoff)
           ELSE LET d == CardinalDelta(q[trailoff + 1]) IN
                IF d = <<0, 0>> \/ a = NoCell THEN NoCell ELSE <<a[1] + d[1], a[2] + d[2]>>
  IN [a |-> a, b |-> b, c |-> q[markpos] = "<-->",
      ok |-> /\ q[markpos] \in {"<-->", "<XX>"}
             /\ a # NoCell /\ b # NoCell /\ InGridCell(R, C, a) /\ InGridCell(R, C, b) /\ Manhattan(a, b) = 1
             /\ (at.pre => q[o+1] = "ADJ_GROUP") /\ (at.post => q[o + RecW(ct, at)] = ";")]
DecodeAdj(ct, at, inv, R, C, q) ==
  [k \in 1..(Len(q) \div RecW(ct, at)) |-> DecodeRecAt(ct, at, inv, R, C, q, (k-1) * RecW(ct, at))]

\* what a reader who knows only the parameters and the grid shape recovers: the set of connections
RecoverConn(ct, at, inv, R, C, q) ==
  IF Len(q) % RecW(ct, at) # 0 THEN [ok |-> FALSE, conn |-> {}]
  ELSE LET D == DecodeAdj(ct, at, inv, R, C, q)   K == 1..Len(D) IN
       IF \E k \in K : ~D[k].ok THEN [ok |-> FALSE, conn |-> {}]
       ELSE LET L == {Canon(D[k].a, D[k].b) : k \in K}
                LT == {Canon(D[k].a, D[k].b) : k \in {j \in K : D[j].c}}
                LF == {Canon(D[k].a, D[k].b) : k \in {j \in K : ~D[j].c}} IN
            IF at.subset = "AllLatticeEdges" THEN [ok |-> L = LEdges(R, C) /\ LT \cap LF = {}, conn |-> LT]
            ELSE IF at.walls THEN [ok |-> LT = {}, conn |-> LEdges(R, C) \ L]
            ELSE [ok |-> LF = {}, conn |-> L]

\* verdict on an observed adjacency region q for the maze (R, C, conn): names of violated clauses
AdjClauses(ct, at, inv, R, C, conn, q) ==
  LET w == RecW(ct, at)   n == Len(q) IN
  IF n % w # 0 THEN {"adj_not_whole_records"}
  ELSE LET D == DecodeAdj(ct, at, inv, R, C, q)   K == 1..Len(D) IN
       IF \E k \in K : ~D[k].ok THEN {"adj_record_malformed"}
       ELSE LET O == {<<D[k].a, D[k].b>> : k \in K}             \* oriented edges listed
                L == {Canon(x[1], x[2]) : x \in O}               \* edges listed
                S == SelectedEdges(at, R, C, conn)               \* edges that must be listed
            IN (IF \E k \in K : D[k].c # EdgeConn(conn, Canon(D[k].a, D[k].b)) THEN {"adj_mark_wrong"} ELSE {})
               \cup (IF L \subseteq S THEN {} ELSE {"adj_edge_not_selected"})
               \cup (IF S \subseteq L THEN {} ELSE {"adj_edge_missing"})
               \cup (IF at.perm = "SortedCoords" THEN (IF O \subseteq L THEN {} ELSE {"adj_orientation"})
                     ELSE IF at.perm = "BothCoords" THEN (IF \A x \in O : <<x[2], x[1]>> \in O THEN {} ELSE {"adj_orientation"})
                     ELSE {})
               \cup (IF Len(D) = (IF at.perm = "BothCoords" THEN 2 ELSE 1) * Cardinality(L) THEN {} ELSE {"adj_multiplicity"})

(* ------------------------------------------------------------------ PART 4: origin, target, path *)
CellSeq(s) == [k \in 1..Len(s) |-> Cell(s[k])]
\* indices (1-based) of the solution cells that delimit steps
ForkIdx(R, C, conn, s) == {k \in 1..Len(s) : k = 1 \/ k = Len(s) \/ Degree(R, C, conn, s[k]) > 2}
StepIdx(pt, R, C, conn, s) == IF pt.size = "Singles" THEN 1..Len(s) ELSE ForkIdx(R, C, conn, s)
StepPairs(pt, R, C, conn, s) ==
  LET srt == SetToSortSeq(StepIdx(pt, R, C, conn, s), <) IN [k \in 1..(Len(srt) - 1) |-> <<srt[k], srt[k+1]>>]
South(c) == <<c[1] + 1, c[2]>>         \* the agent starts facing NORTH: it "came from" the south
StepTok(ct, s, kind, i, j) ==
  IF kind = "Coord" THEN CoordToks(ct, s[j])
  ELSE IF kind = "Cardinal" THEN <<Cardinal(s[i], s[i+1])>>
  ELSE IF kind = "Relative" THEN <<Relative(IF i = 1 THEN South(s[1]) ELSE s[i-1], s[i], s[i+1])>>
  ELSE <<"+" \o ToString(j - i)>>
OneStep(ct, pt, s, i, j) ==
  Opt(pt.pre, "STEP")
  \o FlattenSeq([k \in 1..Len(pt.steps) |-> StepTok(ct, s, pt.steps[k], i, j) \o Opt(pt.intra, ":")])
  \o Opt(pt.post, "THEN")
HasCoordStep(pt) == \E k \in 1..Len(pt.steps) : pt.steps[k] = "Coord"
PathToks(ct, pt, R, C, conn, s) ==
  LET sp == StepPairs(pt, R, C, conn, s) IN
  (IF HasCoordStep(pt) THEN Opt(pt.pre, "STEP") \o CoordToks(ct, s[1]) \o Opt(pt.intra, ":") ELSE <<>>)
  \o FlattenSeq([k \in 1..Len(sp) |-> OneStep(ct, pt, s, sp[k][1], sp[k][2])])
OriginOK(ct, inv, q, start) == Len(q) = CW(ct) /\ DecodeCoordAt(ct, inv, q, 0) = start
TargetOK(seq, tt, ct, inv, q, end) ==
  IF seq = "AOTP" THEN /\ Len(q) = CW(ct) + B(tt.post) /\ DecodeCoordAt(ct, inv, q, 0) = end
                       /\ (tt.post => q[Len(q)] = "||")
  ELSE q = <<>>

\* can the maze be written with the fixed vocabulary at all?
MaxDim(R, C) == IF R > C THEN R ELSE C
CoordsRepresentable(ct, R, C) == MaxDim(R, C) <= (IF ct.k = "UT" THEN VMaxGrid ELSE VMaxCTT)
PathRepresentable(pt, R, C, conn, s) ==
  (\E k \in 1..Len(pt.steps) : pt.steps[k] = "Distance")
     => LET sp == StepPairs(pt, R, C, conn, s) IN \A k \in 1..Len(sp) : sp[k][2] - sp[k][1] <= VMaxDistance

(* ------------------------------------------------------------------ PART 5: whole prompt *)
Delims == <<"<ADJLIST_START>", "<ADJLIST_END>", "<ORIGIN_START>", "<ORIGIN_END>",
            "<TARGET_START>", "<TARGET_END>", "<PATH_START>", "<PATH_END>">>
DelimSet == {Delims[k] : k \in 1..8}
\* regions a maze kind has: adjacency | + origin, target | + path
NDelims(kind) == IF kind = "LatticeMaze" THEN 2 ELSE IF kind = "TargetedLatticeMaze" THEN 6 ELSE 8
DelimAt(q) == {i \in 1..Len(q) : q[i] \in DelimSet}
RegionClauses(kind, q) ==
  LET ne == NDelims(kind)   dp == DelimAt(q)   P(k) == {i \in dp : q[i] = Delims[k]} IN
  IF ~ \A k \in 1..8 : Cardinality(P(k)) = (IF k <= ne THEN 1 ELSE 0) THEN {"region_delimiter_count"}
  ELSE LET p == [k \in 1..ne |-> CHOOSE i \in P(k) : TRUE] IN
       IF /\ p[1] = 1 /\ p[ne] = Len(q)
          /\ \A k \in 1..(ne - 1) : p[k] < p[k+1]
          /\ \A k \in 1..((ne \div 2) - 1) : p[2*k + 1] = p[2*k] + 1      \* nothing between regions
       THEN {} ELSE {"region_order"}
DelimPos(kind, q) == [k \in 1..NDelims(kind) |-> CHOOSE i \in 1..Len(q) : q[i] = Delims[k]]
VocabClauses(q) == IF \A i \in 1..Len(q) : q[i] \in VocabSet THEN {} ELSE {"token_not_in_vocabulary"}

\* t = parameter record, m = raw maze record (kind, R, C, conn, start, end, sol), q = the emitted tokens
PromptClauses(t, inv, m, q) ==
  LET rc == RegionClauses(m.kind, q) IN
  IF rc # {} THEN rc
  ELSE LET p == DelimPos(m.kind, q)   Reg(k) == SubSeq(q, p[2*k - 1] + 1, p[2*k] - 1) IN
    AdjClauses(t.coord, t.adj, inv, m.R, m.C, m.conn, Reg(1))
    \cup (IF m.kind = "LatticeMaze" THEN {}
          ELSE (IF OriginOK(t.coord, inv, Reg(2), Cell(m.start)) THEN {} ELSE {"origin"})
               \cup (IF TargetOK(t.seq, t.target, t.coord, inv, Reg(3), Cell(m.end)) THEN {} ELSE {"target"}))
    \cup (IF m.kind # "SolvedMaze" THEN {}
          ELSE (IF Reg(4) = PathToks(t.coord, t.path, m.R, m.C, m.conn, CellSeq(m.sol)) THEN {} ELSE {"path"}))

(* ------------------------------------------------------------------ PART 6: design-level model *)
CONSTANTS DShapes,       \* grid shapes whose graphs are ALL enumerated for the adjacency model
          DCoords,       \* coordinate parameter records explored (subset of CoordSpace)
          DPathShapes,   \* shapes for the path model (fully connected lattice of that shape)
          MaxShuffle,    \* all orders/orientations are explored when a stream has <= MaxShuffle records
          DBug           \* "none", or the name of a deliberately broken emitter (non-vacuity guard)
VARIABLES dphase, dct, dat, dpt, dm, dtodo, dout, dcanon
dvars == <<dphase, dct, dat, dpt, dm, dtodo, dout, dcanon>>

\* the model is split over parallel TLC runs by parameter index (string interning serialises TLC workers)
EnvNat(name, dflt) == IF name \in DOMAIN IOEnv THEN atoi(IOEnv[name]) ELSE dflt
ShardN == EnvNat("VERIF_NSHARDS", 1)
ShardK == EnvNat("VERIF_SHARD", 0)
PermI(x) == IF x = "SortedCoords" THEN 0 ELSE IF x = "RandomCoords" THEN 1 ELSE 2
AdjIdx(at) == at.ord + 3 * PermI(at.perm) + 9 * B(at.cls = "AdjListCoord") + 18 * B(at.post) + 36 * B(at.shuffle)
              + 72 * (IF at.subset = "AllLatticeEdges" THEN 0 ELSE 1 + B(at.walls))
PathIdx(pt) == B(pt.pre) + 2 * B(pt.intra) + 4 * B(pt.post) + 8 * B(pt.size = "Forks") + 16 * Len(pt.steps)
DAdjs == {at \in AdjSpace : AdjIdx(at) % ShardN = ShardK}
DPaths == {pt \in PathSpace : PathIdx(pt) % ShardN = ShardK}

ConnsOf(r, c) ==
  {x \in [1..2 -> [1..r -> [1..c -> {0, 1}]]] :
     (\A j \in 1..c : x[1][r][j] = 0) /\ (\A i \in 1..r : x[2][i][c] = 0)}
FullConn(r, c) == [d \in 1..2 |-> [i \in 1..r |-> [j \in 1..c |->
                     IF (d = 1 /\ i < r) \/ (d = 2 /\ j < c) THEN 1 ELSE 0]]]
DInv == InvTables(4)
NoAdj == [cls |-> "none"]
NoPath == [cls |-> "none"]

\* self-avoiding walks along conn (length 1..r*c) plus one-step-and-back walks (exercise BACKWARD)
RECURSIVE SAWsFrom(_, _, _, _, _)
SAWsFrom(r, c, conn, P, k) ==
  IF k = 0 \/ P = {} THEN {}
  ELSE P \cup SAWsFrom(r, c, conn, UNION {{Append(p, b) : b \in NbC(r, c, conn, p[Len(p)]) \ SeqToSet(p)} : p \in P}, k - 1)
Walks(r, c, conn) == SAWsFrom(r, c, conn, {<<x>> : x \in CellsOf(r, c)}, r * c)
                     \cup UNION {{<<a, b, a>> : b \in NbC(r, c, conn, a)} : a \in CellsOf(r, c)}
WalksFull == [sh \in DPathShapes |-> Walks(sh[1], sh[2], FullConn(sh[1], sh[2]))]

Pending(at, r, c, conn) ==
  LET S == SelectedEdges(at, r, c, conn) IN
  IF at.perm = "BothCoords" THEN {<<e, "f">> : e \in S} \cup {<<e, "b">> : e \in S}
  ELSE IF at.perm = "SortedCoords" THEN {<<e, "f">> : e \in S} ELSE {<<e, "?">> : e \in S}

DInitAdj == \E sh \in DShapes : \E cn \in ConnsOf(sh[1], sh[2]) : \E ct \in DCoords : \E at \in DAdjs :
  /\ dphase = "emit" /\ dct = ct /\ dat = at /\ dpt = NoPath
  /\ dm = [R |-> sh[1], C |-> sh[2], conn |-> cn, sol |-> <<>>]
  /\ dtodo = Pending(at, sh[1], sh[2], cn) /\ dout = <<>> /\ dcanon = TRUE
DInitPath == \E sh \in DPathShapes : \E s \in WalksFull[sh] : \E ct \in DCoords : \E pt \in DPaths :
  /\ dphase = "path" /\ dct = ct /\ dat = NoAdj /\ dpt = pt
  /\ dm = [R |-> sh[1], C |-> sh[2], conn |-> FullConn(sh[1], sh[2]), sol |-> s]
  /\ dtodo = {} /\ dcanon = TRUE
  /\ dout = LET q == PathToks(ct, pt, sh[1], sh[2], FullConn(sh[1], sh[2]), s) IN
            IF DBug = "path_stream_cut" /\ Len(s) = 3 THEN SubSeq(q, 1, Len(PathToks(ct, pt, sh[1], sh[2], FullConn(sh[1], sh[2]), SubSeq(s, 1, 2)))) ELSE q
Init == DInitAdj \/ DInitPath

NRecs == (Len(dout) \div RecW(dct, dat)) + Cardinality(dtodo)
\* the emitter; DBug # "none" models a broken tokenizer that the verdict must reject
EmitMark(e) == IF DBug = "mark_inverted_at_origin" /\ e[1] = <<0, 0>> THEN ~EdgeConn(dm.conn, e) ELSE EdgeConn(dm.conn, e)
Emit == /\ dphase = "emit" /\ dtodo # {}
        /\ \E x \in dtodo : \E o \in (IF x[2] = "?" THEN {"f", "b"} ELSE {x[2]}) :
             LET canon == x = (CHOOSE y \in dtodo : TRUE) /\ (x[2] = "?" => o = "f")
                 fwd == IF DBug = "sorted_emits_greater_first" /\ dat.perm = "SortedCoords" THEN o # "f" ELSE o = "f"
                 a == IF fwd THEN x[1][1] ELSE x[1][2]
                 b == IF fwd THEN x[1][2] ELSE x[1][1]
             IN /\ (NRecs <= MaxShuffle \/ canon)
                /\ dout' = dout \o EdgeRec(dct, dat, a, b, EmitMark(x[1]))
                /\ dtodo' = dtodo \ {x} /\ dcanon' = (dcanon /\ canon)
        /\ UNCHANGED <<dphase, dct, dat, dpt, dm>>
Finish == /\ dphase = "emit" /\ dtodo = {} /\ dphase' = "done"
          /\ UNCHANGED <<dct, dat, dpt, dm, dtodo, dout, dcanon>>
Next == Emit \/ Finish
Spec == Init /\ [][Next]_dvars

Verdict(conn, q) == AdjClauses(dct, dat, DInv, dm.R, dm.C, conn, q)
Recovers(q) == LET r == RecoverConn(dct, dat, DInv, dm.R, dm.C, q) IN r.ok /\ r.conn = ConnSet(dm.R, dm.C, dm.conn)
\* every order / orientation the tokenizer may choose is accepted ...
AcceptsEveryShuffle == dphase = "done" => Verdict(dm.conn, dout) = {}
\* ... and a reader who knows only the parameters recovers exactly the maze's connections
DecodesToTheMaze == dphase = "done" => Recovers(dout)
AdjInVocab == dphase = "done" => VocabClauses(dout) = {}
\* the same stream is rejected for every other maze of the shape (the encoding is injective)
RejectsOtherMazes == (dphase = "done" /\ dcanon) =>
  \A cn \in ConnsOf(dm.R, dm.C) \ {dm.conn} : Verdict(cn, dout) # {}
\* changing one record into any other record (any lattice edge, orientation, mark, or garbage), dropping
\* one, repeating one or cutting the stream is rejected - except re-orienting under RandomCoords;
\* and whatever is accepted still decodes to the maze
RecUniverse == UNION {{EdgeRec(dct, dat, e[1], e[2], k), EdgeRec(dct, dat, e[2], e[1], k)} :
                      e \in LEdges(dm.R, dm.C), k \in BOOLEAN}
               \cup {[i \in 1..RecW(dct, dat) |-> "&"]}
RejectsSingleChange == (dphase = "done" /\ dcanon) =>
  LET w == RecW(dct, dat)   n == Len(dout) \div w
      U == RecUniverse
      Rec(k) == SubSeq(dout, (k-1)*w + 1, k*w)
      Put(k, r) == SubSeq(dout, 1, (k-1)*w) \o r \o SubSeq(dout, k*w + 1, Len(dout))
      Flip(k) == LET d == DecodeRecAt(dct, dat, DInv, dm.R, dm.C, dout, (k-1)*w) IN EdgeRec(dct, dat, d.b, d.a, d.c)
  IN /\ \A k \in 1..n : \A r \in U \ {Rec(k)} :
          Verdict(dm.conn, Put(k, r)) = {} => (dat.perm = "RandomCoords" /\ r = Flip(k) /\ Recovers(Put(k, r)))
     /\ \A k \in 1..n : Verdict(dm.conn, Put(k, <<>>)) # {}
     /\ \A k \in 1..n : Verdict(dm.conn, dout \o Rec(k)) # {}
     /\ (n >= 1 => Verdict(dm.conn, SubSeq(dout, 1, Len(dout) - 1)) # {})

\* path streams
PathChains == dphase = "path" =>
  LET sp == StepPairs(dpt, dm.R, dm.C, dm.conn, dm.sol)   n == Len(dm.sol) IN
  /\ (n = 1 => sp = <<>>)
  /\ (n > 1 => Len(sp) >= 1 /\ sp[1][1] = 1 /\ sp[Len(sp)][2] = n)
  /\ \A k \in 1..Len(sp) : sp[k][1] < sp[k][2] /\ (k < Len(sp) => sp[k][2] = sp[k+1][1])
PathInVocab == dphase = "path" => VocabClauses(dout) = {}
\* with single steps, a reader who knows the origin recovers the whole solution from the path region:
\* no other walk of the lattice from the same origin has the same stream
SinglesDetermineSolution == (dphase = "path" /\ dpt.size = "Singles") =>
  \A s2 \in WalksFull[<<dm.R, dm.C>>] :
     (s2[1] = dm.sol[1] /\ s2 # dm.sol) => PathToks(dct, dpt, dm.R, dm.C, dm.conn, s2) # dout

ASSUME SpacesWellFormed
ASSUME VocabWellFormed
\* named constants for cfg files
CoordsRep == {c \in CoordSpace : c.k = "UT" \/ (c.pre = c.intra /\ c.intra = c.post)}
CoordsUT == {c \in CoordSpace : c.k = "UT"}
ShapesAdjQuick == {<<1, 2>>, <<2, 1>>, <<2, 2>>}
ShapesAdjFull == {<<1, 2>>, <<2, 1>>, <<2, 2>>, <<1, 3>>, <<3, 1>>}
ShapesPathQuick == {<<2, 2>>, <<1, 3>>}
ShapesPathFull == {<<2, 2>>, <<2, 3>>, <<3, 2>>, <<1, 4>>}
ShapesTiny12 == {<<1, 2>>, <<2, 1>>}
ShapesPath13 == {<<1, 3>>}
NoShapes == {}
NoCoords == {}
=======================================================================
