CONSTANTS Shapes <- ShapesTiny
CONSTANTS Variant = "batch_sorted"
SPECIFICATION Spec
INVARIANT BatchOrder
CHECK_DEADLOCK FALSE
