CONSTANTS Bases <- BasesAB  Filters <- FiltersPT  Paths <- PathsXY
  MaxFl = 2  MaxHandles = 4  MaxColls = 1  MaxOps = 4  KeyIncludesFilters = TRUE  Views <- ViewsTP
SPECIFICATION Spec
INVARIANT ConfigTellsTheTruth
INVARIANT FilesTellTheTruth
INVARIANT ViewsShowWhatTheConfigSays
INVARIANT NoMismatch
CHECK_DEADLOCK FALSE
