\* C07 non-vacuity: a dataset reference that ignores the limit must be rejected (DSAccepted violated)
SPECIFICATION SpecDS
CONSTANTS
  Shapes <- ShapesDS
  CoordKinds <- BothCoordKinds
  MaxSol = 1
  TreesOnly = FALSE
  WhichKinds <- PlainAndSolved
  BrokenLimit = TRUE
INVARIANTS DSAccepted
CHECK_DEADLOCK FALSE
