CONSTANTS DShapes <- NoShapes
CONSTANTS DPathShapes <- NoShapes
CONSTANTS DCoords <- NoCoords
CONSTANTS MaxShuffle = 0
CONSTANTS DBug = "none"
SPECIFICATION TSpec
INVARIANT Done
CHECK_DEADLOCK FALSE
