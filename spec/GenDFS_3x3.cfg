CONSTANTS Shapes <- Shapes3x3
  AccSet <- AccDefault  DepthSet <- DepthDefault  ForkSet <- ForkDefault  RandSet <- BothBool  PercSet <- PercNone
SPECIFICATION Spec
INVARIANT InGridInv
INVARIANT TreeOnVisited
INVARIANT StackInVisited
INVARIANT SpanningWhenDefault
INVARIANT DoneCount
INVARIANT Corridor
INVARIANT MetaTruth
INVARIANT MeasureNat
PROPERTY Terminates
CHECK_DEADLOCK FALSE
