CONSTANTS MaxMazes = 4
          MaxLen = 4
          MaxMembers = 1
          Broken = TRUE
          BrokenLoader = "cat_all"
SPECIFICATION Spec
INVARIANT RoundTrip
CHECK_DEADLOCK FALSE
