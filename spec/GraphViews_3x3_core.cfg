CONSTANTS Shapes <- Shapes3x3
CONSTANTS BugWestSlice = FALSE
CONSTANTS BugNoSort = FALSE
SPECIFICATION Spec
INVARIANT TypeOK
INVARIANT InvPairs
INVARIANT InvNeighbours
INVARIANT InvComponents
INVARIANT InvAdjList
INVARIANT InvRebuild
CHECK_DEADLOCK FALSE
