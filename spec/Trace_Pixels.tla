---------------------------- MODULE Trace_Pixels ----------------------------
(* Use (C) for C10.  One record = one rendering of one real maze object under one flag pair, plus
   what the real readers returned for that picture:
     maze       raw projection (harness/mz.py proj)           se, ss  show_endpoints, show_solution
     res_px     "ok" | "raise:<Type>" of m.as_pixels(se, ss)  img     palette-indexed rows ([] if raised)
     res_ascii  the same for m.as_ascii(se, ss)               ascii   rows of 1-char strings
     rt_px      "ok" | "raise:<Type>" | "na" of type(m).from_pixels(image)    back_px     proj of the result ([] unless ok)
     rt_ascii   the same for type(m).from_ascii(text)                         back_ascii
   Px / FromPx are operators of the maze value, the flags and the picture only, so every record is judged
   on its own: the driver also records HISTORIES (the same object re-rendered under changing flags, the
   returned array overwritten by the caller, the same picture read twice, results projected only after
   later calls, one class reading pictures of decreasing sizes) and magnitude cases (pixel coordinates
   beyond 127 and 255, solutions of 127..129, 255..257 and more cells) - each observation is an ordinary record.
   Layer P (the statement): flag rejection, size, palette, border, cell_pixels, edge_pixels, endpoints,
   solution_pixels, ascii, roundtrip_{pixels,ascii}_{raises,kind,connections,endpoints,solution}
   (the read-back clauses only for a complete picture of a maze inside the premise).
   Layer M (conformance with the Pixels.tla reader / details the statement leaves open):
   M:post_pixels, M:frompx_model, M:fromascii_model, M:input_malformed, M:argument_modified.
   Audit 2 (input representations, factories, defaults): two optional fields,
     lay     "" = the record is inside the statement (Layer P);  "M:<name>" = the observation used an input
             the statement does not quantify over (flags left to their defaults or given as ints, a non-bool
             connection array, the 2-D black/white grid, re-formatted text): every Layer-P clause it violates
             is reported as the single Layer-M clause <name>
     intact  FALSE = a renderer changed the maze value / a reader changed the picture it was given
   (a record without them is an ordinary Layer-P record whose arguments were left intact). *)
EXTENDS Pixels, TLC, Json, IOUtils, SequencesExt
Log == ndJsonDeserialize(IOEnv.VERIF_LOG)

ReadBack(m, rt, back, tag) ==
  IF rt # "ok" THEN {"roundtrip_" \o tag \o "_raises"}
  ELSE (IF back.kind = m.kind THEN {} ELSE {"roundtrip_" \o tag \o "_kind"})
       \cup (IF back.R = m.R /\ back.C = m.C /\ back.conn = m.conn THEN {} ELSE {"roundtrip_" \o tag \o "_connections"})
       \cup (IF back.start = m.start /\ back.end = m.end THEN {} ELSE {"roundtrip_" \o tag \o "_endpoints"})
       \cup (IF back.sol = m.sol THEN {} ELSE {"roundtrip_" \o tag \o "_solution"})

\* the real reader agrees with the Pixels.tla reader on this very picture (also outside the premise:
\* both refuse, or both return the same value)
Conforms(d, rt, back, name) ==
  IF rt = "na" THEN {}
  ELSE IF IsPxFail(d) THEN (IF rt = "ok" THEN {name} ELSE {})
  ELSE IF rt # "ok" THEN {name}
  ELSE IF d.kind = back.kind /\ d.R = back.R /\ d.C = back.C /\ back.conn = d.conn
          /\ d.start = back.start /\ d.end = back.end /\ d.sol = back.sol THEN {} ELSE {name}

\* FromPx indexes the odd/even lattice: only for odd-sized rectangular pictures
OddShaped(g) == Len(g) >= 3 /\ Len(g) % 2 = 1 /\ Len(g[1]) >= 3 /\ Len(g[1]) % 2 = 1 /\ \A y \in 1..Len(g) : Len(g[y]) = Len(g[1])

BaseClauses(r) ==
  LET m == r.maze  se == r.se  ss == r.ss IN
  IF ~WellFormedMaze(m) THEN {"M:input_malformed"}
  ELSE IF ~Accepted(se, ss) THEN
    (IF r.res_px = "raise:ValueError" /\ r.res_ascii = "raise:ValueError" THEN {} ELSE {"rejects_solution_without_endpoints"})
  ELSE IF r.res_px # "ok" \/ r.res_ascii # "ok" THEN {"render_raises"}
  ELSE LET ic == ImgClauses(m, se, ss, r.img) IN
    ic
    \cup AsciiClauses(r.img, r.ascii)
    \cup (IF Complete(m, se, ss) /\ Premise(m)
            THEN ReadBack(m, r.rt_px, r.back_px, "pixels") \cup ReadBack(m, r.rt_ascii, r.back_ascii, "ascii")
            ELSE {})
    \cup (IF "size" \in ic THEN {} ELSE Conforms(FromPxAs(m.kind, r.img), r.rt_px, r.back_px, "M:frompx_model"))
    \cup (IF OddShaped(r.ascii) THEN Conforms(FromAsciiAs(m.kind, r.ascii), r.rt_ascii, r.back_ascii, "M:fromascii_model") ELSE {})

\* the Layer-M clause names (TLC cannot look into strings)
MNames == {"M:post_pixels", "M:frompx_model", "M:fromascii_model", "M:input_malformed", "M:argument_modified"}
LayOf(r) == IF "lay" \in DOMAIN r THEN r.lay ELSE ""
IntactOf(r) == IF "intact" \in DOMAIN r THEN r.intact ELSE TRUE
Clauses(r) ==
  LET b == BaseClauses(r)
      a == IF IntactOf(r) THEN {} ELSE {"M:argument_modified"} IN
  IF LayOf(r) = "" THEN b \cup a
  ELSE (b \cap MNames) \cup a \cup (IF b \subseteq MNames THEN {} ELSE {LayOf(r)})

VARIABLES l, bad
Init == l = 1 /\ bad = {}
Next == /\ l <= Len(Log) /\ l' = l + 1
        /\ bad' = bad \cup (LET cs == Clauses(Log[l]) IN IF cs = {} THEN {} ELSE {[id |-> Log[l].id, c |-> cs]})
Spec == Init /\ [][Next]_<<l, bad>>
Done == (l = Len(Log) + 1) =>
          ndJsonSerialize(IOEnv.VERIF_OUT, <<[id |-> -1, c |-> {ToString(Len(Log))}]>> \o SetToSeq(bad))
=========================================================================
