\* C07 non-vacuity of the square-only interpretation: with the implementation's ONE-side grid inference the round
\* trip FAILS on an oblong maze although the premise holds (TLC must report SquareRoundTrip violated)
SPECIFICATION Spec
CONSTANTS
  Shapes <- ShapesL1
  CoordKinds <- UTOnly
  MaxSol = 1
  TreesOnly = FALSE
  WhichKinds <- PlainOnly
  BrokenLimit = FALSE
INVARIANTS SquareRoundTrip
CHECK_DEADLOCK FALSE
