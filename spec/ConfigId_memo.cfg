CONSTANTS Full = FALSE
          Variant = "memo_hash"
SPECIFICATION ESpec
INVARIANT HashFollowsInv
CHECK_DEADLOCK FALSE
