CONSTANTS Full = FALSE
          Variant = "ok"
SPECIFICATION Spec
INVARIANT Done
CHECK_DEADLOCK FALSE
