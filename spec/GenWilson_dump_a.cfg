CONSTANTS Shapes <- ShapesC19a
SPECIFICATION Spec
CHECK_DEADLOCK FALSE
