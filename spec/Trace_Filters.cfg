SPECIFICATION Spec
INVARIANT Done
CHECK_DEADLOCK FALSE
