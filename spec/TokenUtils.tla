---------------------------- MODULE TokenUtils ----------------------------
(* The TOKEN / COORDINATE UTILITY layer of maze_dataset (maze_dataset/token_utils.py, maze_dataset/utils.py),
   stated explicitly.  No listed property covers these helpers directly: everything here is Layer M
   (a disagreement of the real code is a MODEL-DIVERGENCE, never a VIOLATION).

   Text is a SEQUENCE OF ONE-CHARACTER STRINGS (TLC cannot look inside a string); a token is an opaque
   string.  The two views are tied together by JoinChars and by the theorem TableIsLexed: the finite table of
   coordinate tokens "(" \o ToString(i) \o "," \o ToString(j) \o ")" (TokLegacy!UTOf, built once) is exactly
   what the character lexer reads.

   Contents
     1  characters, the DEFINITION of 'a UT coordinate string' (CoordDecl), the lenient reading int() gives
        (LenientTuple = coord_str_to_tuple), noneable, the splitter definition (SplitDecl = the regular
        expression  \([^)]*\)|\S+ ), strings_to_coords / coords_to_strings
     2  the coordinate LEXER as a state machine over a list of characters, one action per character class
        (machine "lex"); TLC: for every string over the alphabet up to MaxLex characters the machine accepts
        iff CoordDecl says so, with the same value
     3  the SPLITTER as a state machine with one rewind (machine "split"); TLC: = SplitDecl, tokens partition
        the non-blank characters, blank-joined coordinate/word lists come back unchanged
     4  tokens_between as a definition (TBDecl) and as a one-pass state machine (machine "tb"); TLC: the
        result is the contiguous slice strictly between the FIRST start delimiter and the first end delimiter
        FOLLOWING it, errors exactly in the documented cases
     5  region getters, get_token_regions, equal_except_adj_list_sequence (+ its false positives: machine "fp",
        NoFalsePositive must be VIOLATED for CTT - documented - and, as TLC shows, for UT as well)
     6  directions (cardinal / relative), connection_list_to_adj_list, is_connection, bool_array_from_string,
        remove_padding_from_token_str, manhattan / lattice helpers; theorems in machine "thm"

   Where the documentation (docstrings, error messages, the repository's own unit tests) and the code differ,
   THIS module states the documentation; the tolerated deviations are named predicates (Quirk...) used only
   by the oracle Trace_TokenUtils. *)
EXTENDS TokLegacy

CONSTANTS Machines,      \* subset of {"lex", "split", "tb", "fp", "thm"}
          LexAlphabet,   \* characters fed to the lexer machine
          FullLex,       \* every string of at most FullLex characters is fed to the lexer machine ...
          MaxLex,        \* ... and beyond that every string up to MaxLex characters whose proper prefixes are not yet rejected
          SplitAlphabet, MaxSplit,
          MaxTB,         \* longest token sequence given to the tokens_between machine
          FPCoord,       \* coordinate style of the false-positive search ("UT" | "CTT")
          Broken         \* "none" | "lex_single_item" | "split_no_rewind" | "tb_last_end"

\* =========================================================================== 1 characters and definitions
Digits == {"0", "1", "2", "3", "4", "5", "6", "7", "8", "9"}
DigitVal == [c \in Digits |-> CHOOSE k \in 0..9 : ToString(k) = c]
CharClass(c) == IF c = "(" THEN "open" ELSE IF c = ")" THEN "close" ELSE IF c = "," THEN "comma"
                ELSE IF c = " " THEN "space" ELSE IF c \in Digits THEN "digit" ELSE "other"
JoinChars(cs) == FoldLeft(LAMBDA acc, c : acc \o c, "", cs)
Slice(q, lo, hi) == IF hi < lo THEN <<>> ELSE SubSeq(q, lo, hi)     \* Python q[lo-1:hi]
MinOfSet(S) == CHOOSE x \in S : \A y \in S : x <= y

NonBlank(s) == {k \in 1..Len(s) : s[k] # " "}
TrimSp(s) == LET nb == NonBlank(s) IN IF nb = {} THEN <<>> ELSE SubSeq(s, MinOfSet(nb), MaxOfSet(nb))   \* str.strip()
StripIf(ws, s) == IF ws THEN TrimSp(s) ELSE s
SplitOn(s, sep) ==                                                  \* str.split(sep): always >= 1 piece
  LET at == SetToSortSeq({k \in 1..Len(s) : s[k] = sep}, <)
      cut == <<0>> \o at \o <<Len(s) + 1>>
  IN [k \in 1..(Len(cut) - 1) |-> Slice(s, cut[k] + 1, cut[k + 1] - 1)]
IsNum(s) == s # <<>> /\ \A k \in 1..Len(s) : s[k] \in Digits
NumVal(s) == FoldLeft(LAMBDA acc, c : acc * 10 + DigitVal[c], 0, s)

(* DEFINITION.  A UT coordinate string is      ws* "(" item ("," item)+ ")" ws*      item ::= ws* digit+ ws*
   (ws only when allow_whitespace; at least two items: `"," in coord_str`); its value is the tuple of the
   items read in base 10.  Everything else is not a coordinate string. *)
NotCoord == [ok |-> FALSE, val |-> <<>>]
CoordDecl(s, ws) ==
  LET t == StripIf(ws, s)  n == Len(t) IN
  IF n < 2 THEN NotCoord
  ELSE IF t[1] # "(" \/ t[n] # ")" THEN NotCoord
  ELSE LET ps == SplitOn(Slice(t, 2, n - 1), ",")
           its == [k \in 1..Len(ps) |-> StripIf(ws, ps[k])]
       IN IF Len(ps) >= 2 /\ \A k \in 1..Len(ps) : IsNum(its[k])
          THEN [ok |-> TRUE, val |-> [k \in 1..Len(ps) |-> NumVal(its[k])]] ELSE NotCoord
IsCoordStr(s, ws) == CoordDecl(s, ws).ok

(* coord_str_to_tuple ("convert a coordinate string to a tuple"; its unit tests fix the reading of other
   strings: ValueError for "(1, a)" and "()", (1, 2) for "(1, 2)" even with allow_whitespace=False):
   outer blanks (when allowed), then ALL leading "(" and ALL trailing ")" are dropped, the rest is cut at
   the commas and every piece is read by int(), which ignores blanks around the digits. *)
StripParens(s) ==
  LET a == {k \in 1..Len(s) : s[k] # "("}
      u == IF a = {} THEN <<>> ELSE SubSeq(s, MinOfSet(a), Len(s))
      b == {k \in 1..Len(u) : u[k] # ")"}
  IN IF b = {} THEN <<>> ELSE SubSeq(u, 1, MaxOfSet(b))
LenientTuple(s, ws) ==
  LET t == StripIf(ws, StripParens(StripIf(ws, s)))
      ps == SplitOn(t, ",")
      its == [k \in 1..Len(ps) |-> TrimSp(ps[k])]
  IN IF \A k \in 1..Len(ps) : IsNum(its[k])
     THEN [res |-> "ok", val |-> [k \in 1..Len(ps) |-> NumVal(its[k])]]
     ELSE [res |-> "raise:ValueError", val |-> <<>>]
\* coord_str_to_tuple_noneable: the value of a coordinate string, None (here: none = TRUE) otherwise
Noneable(s) == LET d == CoordDecl(s, TRUE) IN [none |-> ~d.ok, val |-> d.val]

(* QUIRK (tolerated by the oracle, reported): str_is_coord strips ALL outer parentheses (lstrip / rstrip), so
   "((0,0)" and "(0,0))" are accepted although they are not coordinate strings. *)
CollapseParens(s, ws) ==
  LET t == StripIf(ws, s) IN
  IF t = <<>> THEN t ELSE IF t[1] # "(" \/ t[Len(t)] # ")" THEN t ELSE <<"(">> \o StripParens(t) \o <<")">>
QuirkSurplusParens(s, ws) == ~IsCoordStr(s, ws) /\ IsCoordStr(CollapseParens(s, ws), ws)

(* coords_string_split_UT = re.findall(r"\([^)]*\)|\S+"): blanks separate; at a non-blank character, if it is
   "(" and some ")" follows, the token runs to the FIRST ")" (blanks and "(" inside included); otherwise
   the token is the maximal run of non-blank characters (which may swallow later parentheses). *)
RECURSIVE SplitFrom(_, _)
SplitFrom(s, p) ==
  IF p > Len(s) THEN <<>>
  ELSE IF s[p] = " " THEN SplitFrom(s, p + 1)
  ELSE LET closes == {q \in (p + 1)..Len(s) : s[q] = ")"}
           blanks == {q \in p..Len(s) : s[q] = " "}
           hi == IF s[p] = "(" /\ closes # {} THEN MinOfSet(closes)
                 ELSE IF blanks = {} THEN Len(s) ELSE MinOfSet(blanks) - 1
       IN <<(<<p, hi>>)>> \o SplitFrom(s, hi + 1)
SplitRanges(s) == SplitFrom(s, 1)
SplitDecl(s) == LET r == SplitRanges(s) IN [k \in 1..Len(r) |-> SubSeq(s, r[k][1], r[k][2])]

(* strings_to_coords(text, when_noncoord): the text (a list of strings is first joined by single blanks) is
   split; a coordinate string becomes its tuple, another token is skipped / kept / an error.
   items: [k |-> "c", v |-> tuple, s |-> ""]  |  [k |-> "s", v |-> <<>>, s |-> token] *)
JoinBlank(parts) == IF parts = <<>> THEN <<>> ELSE FoldLeft(LAMBDA acc, p : acc \o <<" ">> \o p, parts[1], Tail(parts))
CoordItem(v) == [k |-> "c", v |-> v, s |-> ""]
StrItem(s) == [k |-> "s", v |-> <<>>, s |-> s]
WhenModes == {"skip", "include", "error"}
\* isc(token) : is the token a coordinate string (a parameter so that the oracle can plug in the tolerated quirk)
StringsToCoordsG(chars, mode, isc(_)) ==
  LET toks == SplitDecl(chars)
      bad == {k \in 1..Len(toks) : ~isc(toks[k])}
      item(k) == IF k \in bad THEN StrItem(JoinChars(toks[k])) ELSE CoordItem(LenientTuple(toks[k], TRUE).val)
  IN IF bad # {} /\ mode \notin {"skip", "include"} THEN [res |-> "raise:ValueError", out |-> <<>>]
     ELSE [res |-> "ok", out |-> LET keep == SetToSortSeq({k \in 1..Len(toks) : mode = "include" \/ k \notin bad}, <)
                                 IN [i \in 1..Len(keep) |-> item(keep[i])]]
StringsToCoords(chars, mode) == StringsToCoordsG(chars, mode, LAMBDA t : IsCoordStr(t, TRUE))
(* coords_to_strings(coords, f, when_noncoord), f = _coord_to_strings_UT ("UT") | _coord_to_strings_indexed ("CTT") *)
TupleToks(ck, v) ==
  LET nums == [k \in 1..Len(v) |-> ToString(v[k])] IN
  IF ck = "UT" THEN <<"(" \o (IF nums = <<>> THEN "" ELSE FoldLeft(LAMBDA acc, x : acc \o "," \o x, nums[1], Tail(nums))) \o ")">>
  ELSE <<"(">> \o (IF nums = <<>> THEN <<>> ELSE FoldLeft(LAMBDA acc, x : acc \o <<",", x>>, <<nums[1]>>, Tail(nums))) \o <<")">>
CoordsToStrings(items, ck, mode) ==
  LET strs == {k \in 1..Len(items) : items[k].k = "s"} IN
  IF strs # {} /\ mode \notin {"skip", "include"} THEN [res |-> "raise:ValueError", out |-> <<>>]
  ELSE [res |-> "ok", out |-> FlattenSeq([k \in 1..Len(items) |->
          IF k \in strs THEN (IF mode = "include" THEN <<items[k].s>> ELSE <<>>) ELSE TupleToks(ck, items[k].v)])]

\* the opaque token table and the character lexer agree
DigitsOfNat(n) == IF n < 10 THEN <<ToString(n)>> ELSE <<ToString(n \div 10), ToString(n % 10)>>   \* n < 100
CharsOfCell(c) == <<"(">> \o DigitsOfNat(c[1]) \o <<",">> \o DigitsOfNat(c[2]) \o <<")">>

\* =========================================================================== 4 tokens_between (definition)
CountOf(toks, v) == Cardinality({i \in 1..Len(toks) : toks[i] = v})
Ok(out) == [res |-> "ok", out |-> out]
Raise(x) == [res |-> "raise:" \o x, out |-> <<>>]
(* documented: ValueError "start_value and end_value cannot be the same"; ValueError "... is not present" (or,
   with except_when_tokens_not_unique, "... is not unique"); AssertionError "Start must come before end";
   otherwise the tokens between the first start_value and the first end_value, delimiters included on demand *)
TBDecl(toks, sv, ev, incS, incE, uniq) ==
  IF sv = ev THEN Raise("ValueError")
  ELSE IF uniq /\ (CountOf(toks, sv) # 1 \/ CountOf(toks, ev) # 1) THEN Raise("ValueError")
  ELSE IF ~uniq /\ (CountOf(toks, sv) < 1 \/ CountOf(toks, ev) < 1) THEN Raise("ValueError")
  ELSE LET i == FirstPos(toks, sv)  j == FirstPos(toks, ev) IN
       IF j < i THEN Raise("AssertionError")
       ELSE Ok(Slice(toks, IF incS THEN i ELSE i + 1, IF incE THEN j ELSE j - 1))
(* QUIRK (tolerated by the oracle, reported): the code asserts on the ADJUSTED indices, so with both delimiters
   excluded and the end delimiter directly after the start delimiter it raises AssertionError("Start must
   come before end") although the start does come before the end (documented result: the empty list). *)
QuirkAdjacent(toks, sv, ev, incS, incE) ==
  /\ sv # ev /\ ~incS /\ ~incE /\ CountOf(toks, sv) >= 1 /\ CountOf(toks, ev) >= 1
  /\ FirstPos(toks, ev) = FirstPos(toks, sv) + 1

\* =========================================================================== 5 region getters
GetAdjList(t) == TBDecl(t, AS, AE, FALSE, FALSE, FALSE)
GetOrigin(t) == TBDecl(t, OS, OE, FALSE, FALSE, FALSE)
GetTarget(t) == TBDecl(t, TS, TE, FALSE, FALSE, FALSE)
GetContext(t) == TBDecl(t, AS, PS, TRUE, TRUE, FALSE)
(* get_path_tokens: "everything from the first path coord to the path_end token, if it exists"; the unit test
   fixes trim_end=False to include both delimiters, trim_end=True to exclude them. *)
GetPath(t, trim) ==
  IF CountOf(t, PS) = 0 THEN Raise("ValueError")
  ELSE LET i == FirstPos(t, PS)
           j == IF CountOf(t, PE) = 0 THEN Len(t) + 1 ELSE FirstPos(t, PE)
       IN IF trim THEN Ok(Slice(t, i + 1, j - 1)) ELSE Ok(Slice(t, i, MinI(j, Len(t))))
(* QUIRK (tolerated, reported): with trim_end=False the code does not look for <PATH_END> at all: it returns
   everything from <PATH_START> to the END OF THE LIST, including tokens after <PATH_END>. *)
QuirkPathToListEnd(t) == CountOf(t, PS) > 0 /\ CountOf(t, PE) > 0 /\ FirstPos(t, PE) < Len(t)
GetPathActualNoTrim(t) == Ok(Slice(t, FirstPos(t, PS), Len(t)))
\* get_token_regions: (adjacency tokens, all other tokens); list.index raises ValueError when a delimiter is missing
TokenRegions(t) ==
  IF CountOf(t, AS) = 0 \/ CountOf(t, AE) = 0 THEN [res |-> "raise:ValueError", adj |-> <<>>, non |-> <<>>]
  ELSE LET i == FirstPos(t, AS)  j == FirstPos(t, AE)
       IN [res |-> "ok", adj |-> Slice(t, i + 1, j - 1), non |-> SubSeq(t, 1, i) \o SubSeq(t, j, Len(t))]
BagEq(q1, q2) == Len(q1) = Len(q2) /\ \A x \in SeqToSet(q1) \cup SeqToSet(q2) : CountIn(q1, x) = CountIn(q2, x)
(* equal_except_adj_list_sequence(r1, r2, do_except): equal outside the adjacency region, equal as BAGS OF TOKENS
   inside ("<ADJLIST_START> and <ADJLIST_END> tokens must be in the rollouts": ValueError otherwise) *)
EqualExcept(r1, r2, doExc) ==
  LET no == IF doExc THEN [res |-> "raise:ValueError", val |-> FALSE] ELSE [res |-> "ok", val |-> FALSE] IN
  IF Len(r1) # Len(r2) THEN no
  ELSE IF (CountOf(r1, AS) > 0) # (CountOf(r2, AS) > 0) THEN no
  ELSE IF (CountOf(r1, AE) > 0) # (CountOf(r2, AE) > 0) THEN no
  ELSE LET g1 == TokenRegions(r1)  g2 == TokenRegions(r2) IN
       IF g1.res # "ok" \/ g2.res # "ok" THEN [res |-> "raise:ValueError", val |-> FALSE]
       ELSE IF g1.non # g2.non THEN no
       ELSE IF ~BagEq(g1.adj, g2.adj) THEN no
       ELSE [res |-> "ok", val |-> TRUE]

\* =========================================================================== 6 directions, arrays
VSub(a, b) == <<a[1] - b[1], a[2] - b[2]>>
Compass == [n \in {"NORTH", "SOUTH", "WEST", "EAST"} |->
              CASE n = "NORTH" -> <<-1, 0>> [] n = "SOUTH" -> <<1, 0>> [] n = "WEST" -> <<0, -1>> [] n = "EAST" -> <<0, 1>>]
\* get_cardinal_direction(coords): the token of travelling from coords[0] to coords[1]; no unit step: KeyError
Cardinal(a, b) ==
  LET d == VSub(b, a)  ns == {n \in DOMAIN Compass : Compass[n] = d} IN
  IF ns = {} THEN [res |-> "raise:KeyError", val |-> ""] ELSE [res |-> "ok", val |-> CHOOSE n \in ns : TRUE]
\* facing h, the step to the left hand: NORTH -> WEST -> SOUTH -> EAST -> NORTH
LeftOf(h) == <<0 - h[2], h[1]>>
ShapeIs(pts, n) == Len(pts) = n /\ \A k \in 1..Len(pts) : Len(pts[k]) = 2
(* get_relative_direction(prev, cur, next): "each must neighbor the previous Coord", next may equal cur *)
Relative(pts) ==
  IF ~ShapeIs(pts, 3) THEN [res |-> "raise:ValueError", val |-> ""]
  ELSE LET p == pts[1]  c == pts[2]  n == pts[3]  h == VSub(c, p)  g == VSub(n, c) IN
  IF Manhattan(p, c) > 1 \/ Manhattan(c, n) > 1 THEN [res |-> "raise:ValueError", val |-> ""]
  ELSE IF n = c THEN [res |-> "ok", val |-> "STAY"]
  ELSE IF n = p THEN [res |-> "ok", val |-> "BACKWARD"]
  ELSE IF p = c THEN [res |-> "raise:ValueError", val |-> ""]          \* heading indeterminate
  ELSE IF g = h THEN [res |-> "ok", val |-> "FORWARD"]
  ELSE IF g = LeftOf(h) THEN [res |-> "ok", val |-> "LEFT"]
  ELSE [res |-> "ok", val |-> "RIGHT"]
\* the code's formulation: third component of the cross product of the two steps
CrossZ(h, g) == h[1] * g[2] - h[2] * g[1]

\* connection_list_to_adj_list: one pair of cells per connection; the unshuffled order is that of np.ndindex
SlotLess(s, t) == s[1] < t[1] \/ (s[1] = t[1] /\ (s[2] < t[2] \/ (s[2] = t[2] /\ s[3] < t[3])))
AdjListPlain(R, C, conn) ==
  LET q == SetToSortSeq(SetSlots(R, C, conn), SlotLess) IN [k \in 1..Len(q) |-> EdgeOfSlot(q[k])]
AdjListOK(R, C, conn, sd0, sd1, out) ==
  LET plain == AdjListPlain(R, C, conn)
      norm == [k \in 1..Len(out) |-> NormEdge(out[k][1], out[k][2])]
  IN /\ Len(out) = Len(plain)
     /\ BagEq(norm, plain)
     /\ ~sd1 => \A k \in 1..Len(out) : out[k] = norm[k]
     /\ ~sd0 => norm = plain
\* is_connection(edges, conn)[k]: edge k (adjacent cells of the grid, either orientation) is a connection
IsConnection(conn, edges) == [k \in 1..Len(edges) |-> Linked(conn, edges[k][1], edges[k][2])]

\* bool_array_from_string(string, shape, true_symbol): blanks removed; wrong number of symbols: ValueError
Prod(shape) == FoldLeft(LAMBDA acc, x : acc * x, 1, shape)
BoolArray(chars, shape, sym) ==
  LET st == SelectSeq(chars, LAMBDA c : c # " ") IN
  IF Len(st) # Prod(shape) THEN [res |-> "raise:ValueError", flat |-> <<>>]
  ELSE [res |-> "ok", flat |-> [k \in 1..Len(st) |-> st[k] = sym]]
\* remove_padding_from_token_str on a blank-joined token list: "<PADDING> " then "<PADDING>" are deleted
PAD == "<PADDING>"
RemovePadding(toks) ==
  LET piece(k) == IF toks[k] = PAD THEN "" ELSE IF k < Len(toks) THEN toks[k] \o " " ELSE toks[k]
  IN FoldLeft(LAMBDA acc, k : acc \o piece(k), "", [k \in 1..Len(toks) |-> k])
\* utils.lattice_connection_array(n) (as a set; "the coord with the smaller sum always comes first"), lattice_max_degrees
LatticeEdges(n) == {EdgeOfSlot(s) : s \in InteriorSlots(n, n)}
MaxDegree(n, c) == Cardinality(Nb4(n, n, c))

\* =========================================================================== the machines
VARIABLES mach, inp, pc, reg
vars == <<mach, inp, pc, reg>>
SeqsUpTo(A, n) == UNION {[1..k -> A] : k \in 0..n}

\* ------------------------------------------------------------------ 2 the coordinate lexer
\* pc: "pre" blanks before "(" | "item" expecting digits | "num" in digits | "post" blanks after digits |
\*     "closed" after ")" | "rej".   reg = [ws, items, cur]
LexInit == mach = "lex" /\ inp = <<>> /\ pc = "pre" /\ \E w \in BOOLEAN : reg = [ws |-> w, items |-> <<>>, cur |-> 0]
LexMinItems == IF Broken = "lex_single_item" THEN 1 ELSE 2
LexAccepts == pc = "closed" /\ Len(reg.items) >= LexMinItems
OfClass(k) == {x \in LexAlphabet : CharClass(x) = k}
Fed(c) == /\ mach = "lex" /\ Len(inp) < MaxLex /\ (Len(inp) < FullLex \/ pc # "rej")
          /\ inp' = Append(inp, c) /\ UNCHANGED mach
Go(p) == pc' = p /\ UNCHANGED reg
Push(p) == pc' = p /\ reg' = [reg EXCEPT !.items = Append(reg.items, reg.cur), !.cur = 0]
LexSpace == \E c \in OfClass("space") : Fed(c) /\
  (IF ~reg.ws THEN Go("rej") ELSE IF pc = "num" THEN Go("post") ELSE IF pc \in {"pre", "item", "post", "closed"} THEN Go(pc) ELSE Go("rej"))
LexOpen == \E c \in OfClass("open") : Fed(c) /\ (IF pc = "pre" THEN Go("item") ELSE Go("rej"))
LexDigit == \E c \in OfClass("digit") : Fed(c) /\
  (IF pc = "item" THEN pc' = "num" /\ reg' = [reg EXCEPT !.cur = DigitVal[c]]
   ELSE IF pc = "num" THEN pc' = "num" /\ reg' = [reg EXCEPT !.cur = reg.cur * 10 + DigitVal[c]]
   ELSE Go("rej"))
LexComma == \E c \in OfClass("comma") : Fed(c) /\ (IF pc \in {"num", "post"} THEN Push("item") ELSE Go("rej"))
LexClose == \E c \in OfClass("close") : Fed(c) /\ (IF pc \in {"num", "post"} THEN Push("closed") ELSE Go("rej"))
LexOther == \E c \in OfClass("other") : Fed(c) /\ Go("rej")
LexNext == LexSpace \/ LexOpen \/ LexDigit \/ LexComma \/ LexClose \/ LexOther

\* every reachable state of the machine is one string: accept / reject / value are what the definition says
LexerIsDefinition ==
  mach = "lex" => LET d == CoordDecl(inp, reg.ws) IN
                  /\ LexAccepts = d.ok
                  /\ LexAccepts => reg.items = d.val
\* the lenient reading agrees with the definition on coordinate strings; noneable
LenientOnCoords ==
  mach = "lex" => LET d == CoordDecl(inp, reg.ws)  t == LenientTuple(inp, reg.ws) IN
                  /\ d.ok => (t.res = "ok" /\ t.val = d.val)
                  /\ IsCoordStr(inp, FALSE) => IsCoordStr(inp, TRUE)
                  /\ Noneable(inp).none = ~IsCoordStr(inp, TRUE)
\* a coordinate string is one token of the splitter, and strings_to_coords reads it as its value
CoordIsOneToken ==
  (mach = "lex" /\ IsCoordStr(inp, TRUE)) =>
      /\ SplitDecl(inp) = <<TrimSp(inp)>>
      /\ \A m \in WhenModes : StringsToCoords(inp, m) = [res |-> "ok", out |-> <<CoordItem(CoordDecl(inp, TRUE).val)>>]
\* the quirk is what it is said to be: surplus outer parentheses, nothing else
QuirkIsNarrow ==
  (mach = "lex" /\ QuirkSurplusParens(inp, reg.ws)) =>
      LET t == StripIf(reg.ws, inp) IN Len(t) >= 3 /\ ((t[1] = "(" /\ t[2] = "(") \/ (t[Len(t)] = ")" /\ t[Len(t) - 1] = ")"))

\* ------------------------------------------------------------------ 3 the splitter
\* pc: "skip" between tokens | "paren" inside "(" ... looking for ")" | "word" | "done"
\* reg = [pos, start, unclosed, out]   out = ranges <<lo, hi>>
SplitInit == /\ mach = "split" /\ pc = "skip" /\ inp \in SeqsUpTo(SplitAlphabet, MaxSplit)
             /\ reg = [pos |-> 1, start |-> 0, unclosed |-> FALSE, out |-> <<>>]
AtEnd == reg.pos > Len(inp)
Cur == inp[reg.pos]
Adv == [reg EXCEPT !.pos = reg.pos + 1]
Emitting(hi, r) == [r EXCEPT !.out = Append(reg.out, <<reg.start, hi>>)]
SplSkipBlank == mach = "split" /\ pc = "skip" /\ ~AtEnd /\ Cur = " " /\ reg' = Adv /\ UNCHANGED <<mach, inp, pc>>
SplStartParen == /\ mach = "split" /\ pc = "skip" /\ ~AtEnd /\ Cur = "(" /\ ~reg.unclosed
                 /\ pc' = "paren" /\ reg' = [Adv EXCEPT !.start = reg.pos] /\ UNCHANGED <<mach, inp>>
SplStartWord == /\ mach = "split" /\ pc = "skip" /\ ~AtEnd /\ Cur # " " /\ (Cur # "(" \/ reg.unclosed)
                /\ pc' = "word" /\ reg' = [Adv EXCEPT !.start = reg.pos] /\ UNCHANGED <<mach, inp>>
SplParenChar == mach = "split" /\ pc = "paren" /\ ~AtEnd /\ Cur # ")" /\ reg' = Adv /\ UNCHANGED <<mach, inp, pc>>
SplParenClose == /\ mach = "split" /\ pc = "paren" /\ ~AtEnd /\ Cur = ")"
                 /\ pc' = "skip" /\ reg' = Emitting(reg.pos, Adv) /\ UNCHANGED <<mach, inp>>
\* no ")" until the end: the "(" starts an ordinary word; rewind to just after it (no later "(" can close either)
SplRewind == /\ mach = "split" /\ pc = "paren" /\ AtEnd
             /\ IF Broken = "split_no_rewind"
                THEN pc' = "skip" /\ reg' = Emitting(Len(inp), reg)
                ELSE pc' = "word" /\ reg' = [reg EXCEPT !.pos = reg.start + 1, !.unclosed = TRUE]
             /\ UNCHANGED <<mach, inp>>
SplWordChar == mach = "split" /\ pc = "word" /\ ~AtEnd /\ Cur # " " /\ reg' = Adv /\ UNCHANGED <<mach, inp, pc>>
SplWordEnd == /\ mach = "split" /\ pc = "word" /\ (IF AtEnd THEN TRUE ELSE Cur = " ")
              /\ pc' = "skip" /\ reg' = Emitting(reg.pos - 1, reg) /\ UNCHANGED <<mach, inp>>
SplDone == mach = "split" /\ pc = "skip" /\ AtEnd /\ pc' = "done" /\ UNCHANGED <<mach, inp, reg>>
SplitNext == SplSkipBlank \/ SplStartParen \/ SplStartWord \/ SplParenChar \/ SplParenClose \/ SplRewind
             \/ SplWordChar \/ SplWordEnd \/ SplDone
SplitDone == mach = "split" /\ pc = "done"
SplitterIsDefinition == SplitDone => reg.out = SplitRanges(inp)
\* tokens are non-empty, in order, disjoint, and cover exactly the non-blank characters outside parentheses
SplitPartitions ==
  SplitDone => LET r == reg.out IN
    /\ \A k \in 1..Len(r) : r[k][1] <= r[k][2] /\ inp[r[k][1]] # " " /\ inp[r[k][2]] # " "
    /\ \A k \in 1..(Len(r) - 1) : r[k][2] < r[k + 1][1]
    /\ \A p \in NonBlank(inp) : \E k \in 1..Len(r) : r[k][1] <= p /\ p <= r[k][2]
    /\ \A k \in 1..Len(r) : (\E p \in r[k][1]..r[k][2] : inp[p] = " ") =>
          (inp[r[k][1]] = "(" /\ inp[r[k][2]] = ")" /\ \A p \in r[k][1]..(r[k][2] - 1) : inp[p] # ")")
\* the docstring's use: a blank-separated list of coordinate strings and parenthesis-free words comes back as it is
WordLike(t) == t # <<>> /\ \A k \in 1..Len(t) : t[k] \notin {" ", "(", ")"}
SplitOfJoin ==
  SplitDone => LET toks == SplitDecl(inp) IN
    (\A k \in 1..Len(toks) : WordLike(toks[k]) \/ IsCoordStr(toks[k], TRUE)) =>
       /\ SplitDecl(JoinBlank(toks)) = toks
       /\ StringsToCoords(inp, "include").res = "ok" /\ Len(StringsToCoords(inp, "include").out) = Len(toks)
       /\ Len(StringsToCoords(inp, "skip").out) = Cardinality({k \in 1..Len(toks) : IsCoordStr(toks[k], TRUE)})
       /\ (StringsToCoords(inp, "error").res = "ok") = (\A k \in 1..Len(toks) : IsCoordStr(toks[k], TRUE))

\* ------------------------------------------------------------------ 4 tokens_between as a one-pass machine
\* inp = the token list; reg = [sv, ev, incS, incE, uniq, pos, si, ei, ns, ne, result]
TBAlphabet == {"S", "E", "x"}
TBInit == /\ mach = "tb" /\ pc = "args" /\ inp \in SeqsUpTo(TBAlphabet, MaxTB)
          /\ \E s \in {"S", "z"}, e \in {"E", "S", "z"}, a \in BOOLEAN, b \in BOOLEAN, u \in BOOLEAN :
               reg = [sv |-> s, ev |-> e, incS |-> a, incE |-> b, uniq |-> u, pos |-> 1, si |-> 0, ei |-> 0, ns |-> 0, ne |-> 0, result |-> Raise("none")]
TBFinish(r) == pc' = "done" /\ reg' = [reg EXCEPT !.result = r] /\ UNCHANGED <<mach, inp>>
TBArgsSame == mach = "tb" /\ pc = "args" /\ reg.sv = reg.ev /\ TBFinish(Raise("ValueError"))
TBArgsOk == mach = "tb" /\ pc = "args" /\ reg.sv # reg.ev /\ pc' = "scan" /\ UNCHANGED <<mach, inp, reg>>
TBScanning == mach = "tb" /\ pc = "scan" /\ reg.pos <= Len(inp)
TBSeeStart == /\ TBScanning /\ inp[reg.pos] = reg.sv
              /\ reg' = [reg EXCEPT !.pos = @ + 1, !.ns = @ + 1, !.si = IF @ = 0 THEN reg.pos ELSE @]
              /\ UNCHANGED <<mach, inp, pc>>
TBSeeEnd == /\ TBScanning /\ inp[reg.pos] = reg.ev
            /\ reg' = [reg EXCEPT !.pos = @ + 1, !.ne = @ + 1, !.ei = IF @ = 0 \/ Broken = "tb_last_end" THEN reg.pos ELSE @]
            /\ UNCHANGED <<mach, inp, pc>>
TBSeeOther == /\ TBScanning /\ inp[reg.pos] \notin {reg.sv, reg.ev}
              /\ reg' = [reg EXCEPT !.pos = @ + 1] /\ UNCHANGED <<mach, inp, pc>>
TBDecide == /\ mach = "tb" /\ pc = "scan" /\ reg.pos > Len(inp)
            /\ TBFinish(IF reg.uniq /\ (reg.ns # 1 \/ reg.ne # 1) THEN Raise("ValueError")
                        ELSE IF reg.ns < 1 \/ reg.ne < 1 THEN Raise("ValueError")
                        ELSE IF reg.ei < reg.si THEN Raise("AssertionError")
                        ELSE Ok(Slice(inp, IF reg.incS THEN reg.si ELSE reg.si + 1, IF reg.incE THEN reg.ei ELSE reg.ei - 1)))
TBNext == TBArgsSame \/ TBArgsOk \/ TBSeeStart \/ TBSeeEnd \/ TBSeeOther \/ TBDecide
TBDone == mach = "tb" /\ pc = "done"
TBMachineIsDefinition == TBDone => reg.result = TBDecl(inp, reg.sv, reg.ev, reg.incS, reg.incE, reg.uniq)
\* a success is the contiguous slice strictly between the first start delimiter and the first end delimiter
\* that FOLLOWS it (plus the delimiters on demand); no end delimiter occurs before or inside
TBSlice ==
  (TBDone /\ reg.result.res = "ok") =>
    LET i == FirstPos(inp, reg.sv)
        after == {q \in (i + 1)..Len(inp) : inp[q] = reg.ev}
        j == MinOfSet(after)
        out == reg.result.out
        core == Slice(out, IF reg.incS THEN 2 ELSE 1, IF reg.incE THEN Len(out) - 1 ELSE Len(out))
    IN /\ i > 0 /\ after # {}
       /\ core = Slice(inp, i + 1, j - 1)
       /\ \A q \in 1..(j - 1) : inp[q] # reg.ev
       /\ reg.incS => out[1] = reg.sv
       /\ reg.incE => out[Len(out)] = reg.ev
       /\ Len(out) = Len(core) + (IF reg.incS THEN 1 ELSE 0) + (IF reg.incE THEN 1 ELSE 0)
TBErrorsExact ==
  TBDone => LET ns == CountOf(inp, reg.sv)  ne == CountOf(inp, reg.ev)
                valueError == reg.sv = reg.ev \/ ns = 0 \/ ne = 0 \/ (reg.uniq /\ (ns > 1 \/ ne > 1)) IN
    /\ (reg.result.res = "raise:ValueError") = valueError
    /\ (reg.result.res = "raise:AssertionError") = (~valueError /\ FirstPos(inp, reg.ev) < FirstPos(inp, reg.sv))
    /\ reg.result.res \in {"ok", "raise:ValueError", "raise:AssertionError"}
\* the getters are instances; the regions of one token list fit together
GettersConsistent ==
  TBDone => LET t == [k \in 1..Len(inp) |-> IF inp[k] = "S" THEN AS ELSE IF inp[k] = "E" THEN AE ELSE inp[k]]
                g == TokenRegions(t)  a == GetAdjList(t) IN
    /\ (g.res = "ok") = (a.res # "raise:ValueError")
    /\ a.res = "ok" => (g.adj = a.out /\ Len(g.adj) + Len(g.non) = Len(t))
    /\ EqualExcept(t, t, TRUE) = (IF g.res = "ok" THEN [res |-> "ok", val |-> TRUE] ELSE [res |-> "raise:ValueError", val |-> FALSE])

\* ------------------------------------------------------------------ 5 false positives of equal_except_adj_list_sequence
\* one state per pair of plain 2x2 mazes; reg = [m1, m2]
Mazes22 == {MazeVal(KPlain, 2, 2, {EdgeOfSlot(s) : s \in S}, <<>>, <<>>, <<>>) : S \in SUBSET InteriorSlots(2, 2)}
FPInit == mach = "fp" /\ inp = <<>> /\ pc = "pair" /\ \E a \in Mazes22, b \in Mazes22 : reg = [m1 |-> a, m2 |-> b]
\* intended use ("two tokenization schemes ... for rollouts generated from the same maze"): every two
\* emissions of one maze are accepted
SameMazeAccepted ==
  (mach = "fp" /\ reg.m1 = reg.m2) =>
     \A t \in Emit(FPCoord, reg.m1) : EqualExcept(CanonEmit(FPCoord, reg.m1), t, TRUE) = [res |-> "ok", val |-> TRUE]
\* the docstring's warning: emissions of DIFFERENT mazes can be accepted.  Must be VIOLATED (TokenUtils_fp_*.cfg)
NoFalsePositive ==
  (mach = "fp" /\ reg.m1 # reg.m2) =>
     ~EqualExcept(CanonEmit(FPCoord, reg.m1), CanonEmit(FPCoord, reg.m2), FALSE).val
\* what the token bags can and cannot see: with UT tokens the degree of every cell, with CTT tokens only how
\* often every row / column index occurs
DegreeVector(m) == [c \in CellsOf(m.R, m.C) |-> Degree(m.R, m.C, m.conn, c)]
FalsePositiveMeansSameDegrees ==
  (mach = "fp" /\ FPCoord = "UT" /\ Cardinality(EdgesOf(reg.m1)) = Cardinality(EdgesOf(reg.m2))) =>
     (EqualExcept(CanonEmit("UT", reg.m1), CanonEmit("UT", reg.m2), FALSE).val <=> DegreeVector(reg.m1) = DegreeVector(reg.m2))

\* ------------------------------------------------------------------ 6 theorems about the plain definitions
ThmInit == mach = "thm" /\ inp = <<>> /\ pc = "thm" /\ reg = <<>>
Pts == (-1..2) \X (-1..2)
ThmTableIsLexed ==
  mach = "thm" => \A c \in (0..12) \X (0..12) :
     /\ JoinChars(CharsOfCell(c)) = UTTok(c) /\ UTTok(c) \in UTDom /\ UTOf[UTTok(c)] = c
     /\ CoordDecl(CharsOfCell(c), FALSE) = [ok |-> TRUE, val |-> c]
     /\ TupleToks("UT", c) = CoordToks("UT", c) /\ TupleToks("CTT", c) = CoordToks("CTT", c)
ThmDirections ==
  mach = "thm" => \A p \in Pts, c \in Pts, n \in Pts :
     LET r == Relative(<<p, c, n>>)  h == VSub(c, p)  g == VSub(n, c)
         rot(v) == <<v[2], 0 - v[1]>>  mir(v) == <<v[1], 0 - v[2]>>  flip(x) == IF x = "LEFT" THEN "RIGHT" ELSE IF x = "RIGHT" THEN "LEFT" ELSE x IN
     /\ r.val \in {"LEFT", "RIGHT"} => CrossZ(h, g) = (IF r.val = "LEFT" THEN 1 ELSE -1)          \* the code's formula
     /\ (r.res = "ok" /\ r.val \notin {"LEFT", "RIGHT"}) => CrossZ(h, g) = 0
     /\ Relative(<<rot(p), rot(c), rot(n)>>) = r                                                  \* turning the map
     /\ Relative(<<mir(p), mir(c), mir(n)>>) = [r EXCEPT !.val = flip(r.val)]                     \* mirror image
     /\ (r.res = "ok" /\ r.val # "STAY" /\ p # c) =>                                              \* agrees with the compass
           LET cd == Cardinal(p, c)  ce == Cardinal(c, n) IN
           cd.res = "ok" /\ ce.res = "ok" /\ (r.val = "LEFT" <=> Compass[ce.val] = LeftOf(Compass[cd.val]))
     /\ Cardinal(p, c).res = "ok" <=> Manhattan(p, c) = 1
ThmArrays ==
  mach = "thm" => \A n \in 1..3 :
     /\ Cardinality(LatticeEdges(n)) = 2 * n * (n - 1)
     /\ \A e \in LatticeEdges(n) : e[1][1] + e[1][2] < e[2][1] + e[2][2] /\ Manhattan(e[1], e[2]) = 1
     /\ \A S \in SUBSET InteriorSlots(n, n) :
          LET conn == ConnOfSlots(n, n, S)  plain == AdjListPlain(n, n, conn)  es == SetToSeq(LatticeEdges(n)) IN
          /\ AdjListOK(n, n, conn, FALSE, FALSE, plain) /\ SeqToSet(plain) = {EdgeOfSlot(s) : s \in S}
          /\ AdjListOK(n, n, conn, TRUE, TRUE, [k \in 1..Len(plain) |-> <<plain[Len(plain) + 1 - k][2], plain[Len(plain) + 1 - k][1]>>])
          /\ Len(plain) > 0 => ~AdjListOK(n, n, conn, TRUE, FALSE, [k \in 1..Len(plain) |-> <<plain[k][2], plain[k][1]>>])
          /\ \A k \in 1..Len(es) : IsConnection(conn, es)[k] = (es[k] \in SeqToSet(plain))
          /\ IsConnection(conn, es) = IsConnection(conn, [k \in 1..Len(es) |-> <<es[k][2], es[k][1]>>])
ThmStrings ==
  mach = "thm" =>
     /\ BoolArray(<<"T", "T", " ", "T", "F">>, <<2, 2>>, "T") = [res |-> "ok", flat |-> <<TRUE, TRUE, TRUE, FALSE>>]   \* the docstring's example
     /\ BoolArray(<<"T", "F">>, <<2, 2>>, "T").res = "raise:ValueError"
     /\ RemovePadding(<<"a", PAD, "b", PAD>>) = "a b "
     /\ RemovePadding(<<PAD, PAD>>) = ""
     /\ CoordsToStrings(<<CoordItem(<<1, 2>>), StrItem(AS), CoordItem(<<5, 6>>)>>, "UT", "skip") = Ok(<<"(1,2)", "(5,6)">>)          \* unit tests
     /\ CoordsToStrings(<<CoordItem(<<1, 2>>), StrItem(AS), CoordItem(<<5, 6>>)>>, "CTT", "include") = Ok(<<"(", "1", ",", "2", ")", AS, "(", "5", ",", "6", ")">>)
     /\ CoordsToStrings(<<CoordItem(<<1, 2>>), StrItem(AS)>>, "UT", "error").res = "raise:ValueError"

\* ------------------------------------------------------------------ composition
Init == \/ "lex" \in Machines /\ LexInit
        \/ "split" \in Machines /\ SplitInit
        \/ "tb" \in Machines /\ TBInit
        \/ "fp" \in Machines /\ FPInit
        \/ "thm" \in Machines /\ ThmInit
Next == LexNext \/ SplitNext \/ TBNext
Spec == Init /\ [][Next]_vars
=======================================================================
