---------------------------- MODULE TokLegacyMC ----------------------------
(* Design-level model checking of TokLegacy.tla (C07).  Every state is one case:
     maze cases     [t |-> "maze", m, ck, toks]   a maze value, a coordinate style, ONE admissible emission
                                                  (action EmitOne enumerates all of Emit(ck, m): every order
                                                  of the adjacency entries, every orientation of each entry)
     dataset cases  [t |-> "ds", ck, ds, lim, jn, lists, out]   (action TokenizeDS)
   The invariants are the theorems about Emit / Parse / InEmit / Equivalent / DatasetTokens. *)
EXTENDS TokLegacy

CONSTANTS Shapes,        \* set of <<R, C>>
          CoordKinds,    \* subset of {"UT", "CTT"}
          MaxSol,        \* longest solution enumerated
          TreesOnly,     \* TRUE: only spanning trees (keeps the larger shapes enumerable)
          WhichKinds,    \* subset of Kinds
          BrokenLimit    \* TRUE: deliberately wrong dataset reference (ignores the limit) - must be rejected

VARIABLE cs

SolsOf(R, C) == UNION {[1..n -> CellsOf(R, C)] : n \in 1..MaxSol}
MazesOf(R, C) ==
  LET graphs == {S \in SUBSET InteriorSlots(R, C) : ~TreesOnly \/ IsSpanningTreeS(R, C, S)}
      E(S) == {EdgeOfSlot(s) : s \in S}
  IN (IF KPlain \in WhichKinds THEN {MazeVal(KPlain, R, C, E(S), <<>>, <<>>, <<>>) : S \in graphs} ELSE {})
     \cup (IF KTarg \in WhichKinds
           THEN {MazeVal(KTarg, R, C, E(S), a, b, <<>>) : S \in graphs, a \in CellsOf(R, C), b \in CellsOf(R, C)} ELSE {})
     \cup (IF KSolved \in WhichKinds
           THEN {MazeVal(KSolved, R, C, E(S), p[1], p[Len(p)], p) : S \in graphs, p \in SolsOf(R, C)} ELSE {})

\* two levels so that TLC's workers share the work: the initial states fix (maze, style), the single step
\* chooses one admissible emission; the theorems are about the states that carry an emission
Init == \E sh \in Shapes : \E mm \in MazesOf(sh[1], sh[2]) : \E k \in CoordKinds :
          cs = [t |-> "pick", m |-> mm, ck |-> k, toks |-> <<>>]
EmitOne == /\ cs.t = "pick"
           /\ \E t \in Emit(cs.ck, cs.m) : cs' = [cs EXCEPT !.t = "maze", !.toks = t]
Next == EmitOne
Spec == Init /\ [][Next]_cs
Emitted == cs.t = "maze"

\* (1) the round trip, under the premise
RoundTrip_ == Premise(cs.m) => Parse(cs.ck, cs.toks) = cs.m
\* (1') the premise is needed: this one must be violated (TokLegacy_nopremise.cfg)
RoundTripNoPremise_ == Parse(cs.ck, cs.toks) = cs.m
\* without the premise everything but the grid size still comes back
RoundTripUpToGrid_ ==
  LET y == Parse(cs.ck, cs.toks)  m == cs.m IN
  /\ y.kind = m.kind /\ y.start = m.start /\ y.end = m.end /\ y.sol = m.sol
  /\ y.R <= m.R /\ y.C <= m.C /\ EdgesOf(y) = EdgesOf(m)
\* sharper: the round trip holds exactly when the LARGEST row and column index occur in some connection
\* (which the premise implies)
GridRecoverable(m) == LET E == EdgesOf(m) IN
  /\ \E e \in E : e[2][1] = m.R - 1
  /\ \E e \in E : e[2][2] = m.C - 1
RoundTripIff_ == /\ (Parse(cs.ck, cs.toks) = cs.m) <=> GridRecoverable(cs.m)
                /\ Premise(cs.m) => GridRecoverable(cs.m)

\* (1'') the implementation's square inference: under the premise the re-parse is the maze on the square grid of side
\* max(R, C) - the maze itself exactly when it is square.  SquareRoundTrip_ must be violated on oblong shapes.
SquareInference_ ==
  /\ Premise(cs.m) => ParseSq(cs.ck, cs.toks) = PadSq(cs.m)
  /\ (cs.m.R = cs.m.C) <=> (PadSq(cs.m) = cs.m)
  /\ EdgesOf(PadSq(cs.m)) = EdgesOf(cs.m)
SquareRoundTrip_ == Premise(cs.m) => ParseSq(cs.ck, cs.toks) = cs.m

\* (2) InEmit is membership in Emit: accepts every emission, rejects the emissions of the neighbouring mazes
Toggled(m, s) == LET S == {SlotOfEdge(e) : e \in EdgesOf(m)} IN
                 [m EXCEPT !.conn = ConnOfSlots(m.R, m.C, IF s \in S THEN S \ {s} ELSE S \cup {s})]
OtherEnds(m) == IF m.kind = KPlain THEN {}
                ELSE {[m EXCEPT !.start = c] : c \in CellsOf(m.R, m.C) \ {m.start}}
                     \cup {[m EXCEPT !.end = c] : c \in CellsOf(m.R, m.C) \ {m.end}}
OtherSols(m) == IF m.kind # KSolved THEN {}
                ELSE {[m EXCEPT !.sol = SubSeq(m.sol, 1, Len(m.sol) - 1)]} \cup {[m EXCEPT !.sol = m.sol \o <<m.end>>]}
                     \cup UNION {{[m EXCEPT !.sol = [m.sol EXCEPT ![k] = c]] : c \in CellsOf(m.R, m.C) \ {m.sol[k]}} : k \in 1..Len(m.sol)}
OtherKinds(m) == {[m EXCEPT !.kind = k] : k \in Kinds \ {m.kind}}
GraphNeighbours(m) == {Toggled(m, s) : s \in InteriorSlots(m.R, m.C)}
InEmitExact_ ==
  LET m == cs.m  ck == cs.ck  toks == cs.toks  ew == EntryWidth(cs.ck) IN
  /\ InEmit(ck, m, toks)
  /\ \A m2 \in GraphNeighbours(m) \cup OtherEnds(m) \cup OtherSols(m) \cup OtherKinds(m) : ~InEmit(ck, m2, toks)
  \* an entry listed twice, an entry dropped, a token dropped: no longer an emission of m
  /\ EdgesOf(m) # {} => /\ ~InEmit(ck, m, <<AS>> \o SubSeq(toks, 2, 1 + ew) \o Tail(toks))
                        /\ ~InEmit(ck, m, <<AS>> \o SubSeq(toks, 2 + ew, Len(toks)))
  /\ ~InEmit(ck, m, SubSeq(toks, 1, Len(toks) - 1))
\* reading the tokens in the other coordinate style never yields a maze with connections
WrongStyleRejected_ ==
  LET o == IF cs.ck = "UT" THEN "CTT" ELSE "UT" IN
  (EdgesOf(cs.m) # {} \/ cs.m.kind # KPlain) => ~Read(o, cs.toks).ok
\* (3) Equivalent relates every emission to the canonical one and to no emission of a neighbouring maze
EquivExact_ ==
  LET m == cs.m  ck == cs.ck  toks == cs.toks IN
  /\ Equivalent(ck, toks, CanonEmit(ck, m)) /\ Equivalent(ck, CanonEmit(ck, m), toks)
  /\ \A m2 \in GraphNeighbours(m) \cup OtherEnds(m) \cup OtherSols(m) : ~Equivalent(ck, toks, CanonEmit(ck, m2))
  \* multiset, not set: an entry doubled on one side only is not equivalent
  /\ EdgesOf(m) # {} => ~Equivalent(ck, toks, <<AS>> \o SubSeq(toks, 2, 1 + EntryWidth(ck)) \o Tail(toks))
\* multiset in the strict sense: same length, same edge SET, different multiplicities
BagNotSet_ ==
  LET ck == cs.ck  toks == cs.toks  ew == EntryWidth(cs.ck) IN
  Cardinality(EdgesOf(cs.m)) >= 2 =>
    LET e1 == SubSeq(toks, 2, 1 + ew)  e2 == SubSeq(toks, 2 + ew, 1 + 2 * ew)  rest == SubSeq(toks, 2 + 2 * ew, Len(toks)) IN
    /\ ~Equivalent(ck, <<AS>> \o e1 \o e1 \o e2 \o rest, <<AS>> \o e1 \o e2 \o e2 \o rest)
    /\ Equivalent(ck, <<AS>> \o e1 \o e1 \o e2 \o rest, <<AS>> \o e1 \o e2 \o e1 \o rest)

RoundTrip == Emitted => RoundTrip_
RoundTripNoPremise == Emitted => RoundTripNoPremise_
RoundTripUpToGrid == Emitted => RoundTripUpToGrid_
RoundTripIff == Emitted => RoundTripIff_
SquareInference == Emitted => SquareInference_
SquareRoundTrip == Emitted => SquareRoundTrip_
InEmitExact == Emitted => InEmitExact_
WrongStyleRejected == Emitted => WrongStyleRejected_
EquivExact == Emitted => EquivExact_
BagNotSet == Emitted => BagNotSet_

\* ---- dataset-level model: datasets of up to two mazes over the shapes, every limit, both join values
DSMazes == UNION {MazesOf(sh[1], sh[2]) : sh \in Shapes}
InitDS == \E k \in CoordKinds : \E d \in UNION {[1..n -> DSMazes] : n \in 0..2} :
          \E lm \in {<<>>} \cup {<<x>> : x \in 0..3} : \E j \in BOOLEAN :
            cs = [t |-> "pickds", ck |-> k, ds |-> d, lim |-> lm, jn |-> j, lists |-> <<>>, out |-> <<>>]
TokenizeDS == /\ cs.t = "pickds"
              /\ \E f \in DatasetLists(cs.ck, cs.ds, IF BrokenLimit THEN <<>> ELSE cs.lim) :
                    cs' = [cs EXCEPT !.t = "ds", !.lists = f, !.out = IF cs.jn THEN JoinAll(f) ELSE f]
SpecDS == InitDS /\ [][TokenizeDS]_cs
\* every admissible output is accepted by the oracle's predicate (per-maze reference = canonical emission);
\* with BrokenLimit = TRUE this must be violated
DSAccepted_ ==
  DatasetOK(cs.ck, Len(cs.ds), cs.lim, cs.jn, cs.lists, IF cs.jn THEN cs.out ELSE <<>>,
            [i \in 1..Len(cs.ds) |-> CanonEmit(cs.ck, cs.ds[i])])
DSMember_ == cs.out \in DatasetTokens(cs.ck, cs.ds, cs.lim, cs.jn)
\* an output with two items exchanged or one item dropped is rejected
DSRejectsWrong_ ==
  LET per == [i \in 1..Len(cs.ds) |-> CanonEmit(cs.ck, cs.ds[i])]  f == cs.lists IN
  /\ Len(f) >= 1 => ~DatasetOK(cs.ck, Len(cs.ds), cs.lim, FALSE, Tail(f), <<>>, per)
  /\ (Len(f) = 2 /\ ~Equivalent(cs.ck, f[1], f[2])) => ~DatasetOK(cs.ck, Len(cs.ds), cs.lim, FALSE, <<f[2], f[1]>>, <<>>, per)

DSAccepted == cs.t = "ds" => DSAccepted_
DSMember == cs.t = "ds" => DSMember_
DSRejectsWrong == cs.t = "ds" => DSRejectsWrong_

\* named constant values for the cfg files
ShapesL1 == {<<1,1>>, <<1,2>>, <<2,1>>, <<1,3>>, <<3,1>>, <<2,2>>}
ShapesL2 == {<<2,3>>, <<3,2>>}
ShapesDS == {<<1,2>>, <<2,1>>}
BothCoordKinds == {"UT", "CTT"}
PlainAndSolved == {KPlain, KSolved}
PlainOnly == {KPlain}
UTOnly == {"UT"}
=======================================================================
