CONSTANTS MazeVals <- MazeVals8
  MaxLen = 3  MaxOps = 2  DeepCopy = TRUE
SPECIFICATION Spec
INVARIANT InputUntouched
INVARIANT CountUpdated
INVARIANT NoSharedCfg
INVARIANT OnlySelects
CHECK_DEADLOCK FALSE
