------------------------------ MODULE Formats ------------------------------
(* C05 -- the three storage formats of a maze dataset, their loaders, the threshold rule that picks
   one, the collected-metadata map, and collections (a sequence of member encodings).

   Part 1 (definitions) is written over plain sequences so that the trace oracle (Trace_Formats)
   applies the very same operators to the RAW arrays logged from the real code:
     a solution  = sequence of cells (a cell is any value; <<r, c>> in the logs)
     lens        = maze_solution_lengths
     pad         = maze_solutions        (n x max(lens) cells, entries past lens[i] are unconstrained:
                                          the code allocates with np.empty)
     cat         = maze_solutions_concat (all solutions one after the other)
   Part 2 is a small state machine  Build -> Serialize(format) -> Load  that TLC explores for all
   vectors of solution lengths 1..MaxLen of 1..MaxMazes mazes, every format (called directly or
   selected by a threshold), every metadata mode, and small collections; invariant RoundTrip.
   CONSTANT Broken = TRUE switches one loader (BrokenLoader = "pad": soln[:len-1]; "cat": split at the
   lengths instead of their running sums) to a plausible wrong variant which TLC must reject.
   Note (checked by TLC here and on the real code): splitting at ALL running sums instead of all but
   the last is harmless -- it yields one extra empty piece that zip() with the connection lists drops. *)
EXTENDS Naturals, Integers, Sequences, FiniteSets, TLC
CONSTANTS MaxMazes, MaxLen, MaxMembers,
          Broken,        \* BOOLEAN: use a deliberately wrong loader (TLC must reject it)
          BrokenLoader   \* "pad" | "cat": which loader is wrong when Broken ("cat_all": the harmless variant)

\* ------------------------------------------------------------------ Part 1: definitions
FULL    == "MazeDataset"
MINIMAL == "MazeDataset:minimal"
CAT     == "MazeDataset:minimal_soln_cat"
COLL    == "MazeDatasetCollection"
FormatNames == {FULL, MINIMAL, CAT}
IsMinimalFamily(f) == f \in {MINIMAL, CAT}
CollectFilterName == "collect_generation_meta"

\* a threshold is [none |-> BOOLEAN, v |-> Nat]  (none = "never use the minimal format")
NoThr  == [none |-> TRUE, v |-> 0]
Thr(k) == [none |-> FALSE, v |-> k]
\* documented rule: `n_mazes >= SERIALIZE_MINIMAL_THRESHOLD` => minimal; None => never
Select(t, n) == IF (~t.none) /\ n >= t.v THEN MINIMAL ELSE FULL

FMinI(a, b) == IF a < b THEN a ELSE b
Lens(sols) == [i \in 1..Len(sols) |-> Len(sols[i])]
RECURSIVE SumSeq(_)
SumSeq(q) == IF q = <<>> THEN 0 ELSE Head(q) + SumSeq(Tail(q))
CumSum(q) == [i \in 1..Len(q) |-> SumSeq(SubSeq(q, 1, i))]
MaxOf(q) == CHOOSE m \in {q[i] : i \in 1..Len(q)} : \A i \in 1..Len(q) : q[i] <= m
RECURSIVE Flatten(_)
Flatten(ss) == IF ss = <<>> THEN <<>> ELSE Head(ss) \o Flatten(Tail(ss))
DropLast(q) == SubSeq(q, 1, Len(q) - 1)
\* Python s[a:b] for 0 <= a, 0 <= b
PySlice(s, a, b) == IF a >= FMinI(b, Len(s)) THEN <<>> ELSE SubSeq(s, a + 1, FMinI(b, Len(s)))
\* numpy.split(cat, cuts): Len(cuts)+1 pieces cat[0:c1], cat[c1:c2], ..., cat[ck:]
NpSplit(cat, cuts) ==
  LET k == Len(cuts)
      b(j) == IF j = 0 THEN 0 ELSE IF j = k + 1 THEN Len(cat) ELSE cuts[j]
  IN [j \in 1..(k + 1) |-> PySlice(cat, b(j - 1), b(j))]

\* --- encoders (what the serializers must produce from the solutions)
EncPad(sols, fill) ==
  LET mx == MaxOf(Lens(sols))
  IN [i \in 1..Len(sols) |-> sols[i] \o [j \in 1..(mx - Len(sols[i])) |-> fill]]
\* relation form for observed arrays: padding cells are free
IsPadOf(pad, sols) ==
  /\ Len(pad) = Len(sols)
  /\ Len(sols) > 0
  /\ \A i \in 1..Len(sols) : /\ Len(pad[i]) = MaxOf(Lens(sols))
                             /\ SubSeq(pad[i], 1, Len(sols[i])) = sols[i]
EncCat(sols) == Flatten(sols)

\* --- loaders
DecPad(lens, pad) ==
  [i \in 1..FMinI(Len(lens), Len(pad)) |-> PySlice(pad[i], 0, IF Broken /\ BrokenLoader = "pad" THEN lens[i] - 1 ELSE lens[i])]
DecCat(lens, cat) ==
  NpSplit(cat, IF Broken /\ BrokenLoader = "cat" THEN DropLast(lens)
               ELSE IF Broken /\ BrokenLoader = "cat_all" THEN CumSum(lens)   \* harmless variant, see above
               ELSE DropLast(CumSum(lens)))
\* zip(connection lists, solutions): as many mazes as the shorter of the two
ZipMazes(conns, sols) == [i \in 1..FMinI(Len(conns), Len(sols)) |-> [conn |-> conns[i], sol |-> sols[i]]]

\* --- collected generation metadata
\* per-maze metadata = sequence of entries [k |-> key, v |-> sequence of value texts]; a scalar or a
\* single coordinate contributes one text, a set / list of coordinates one text per element.
\* Collecting = for every key the bag of texts over all mazes:  set of <<key, text, count>>.
MetaPositions(metas) ==
  UNION {UNION {{<<i, a, j>> : j \in 1..Len(metas[i][a].v)} : a \in 1..Len(metas[i])} : i \in 1..Len(metas)}
CollectKeys(metas) == UNION {{metas[i][a].k : a \in 1..Len(metas[i])} : i \in 1..Len(metas)}
CollectCounts(metas) ==
  LET P == MetaPositions(metas)
      K(p) == metas[p[1]][p[2]].k
      V(p) == metas[p[1]][p[2]].v[p[3]]
      KV == {<<K(p), V(p)>> : p \in P}
  IN {<<kv[1], kv[2], Cardinality({p \in P : K(p) = kv[1] /\ V(p) = kv[2]})>> : kv \in KV}
Collect(metas) == [present |-> TRUE, keys |-> CollectKeys(metas), cnt |-> CollectCounts(metas)]
NoCollected == [present |-> FALSE, keys |-> {}, cnt |-> {}]

\* filters (provenance list of the config) a loaded dataset must carry: the minimal family first
\* collects the per-maze metadata, which appends one provenance entry (unless already collected)
WillCollect(fmt, collectedPresent, hasMeta) == IsMinimalFamily(fmt) /\ ~collectedPresent /\ hasMeta

\* ------------------------------------------------------------------ Part 2: state machine
VARIABLES phase,   \* "init" | "built" | "serialized" | "loaded"
          kind,    \* "single" | "coll"
          ds,      \* sequence of member datasets (a single dataset = one member)
          thr,     \* threshold in force
          how,     \* "private" (a _serialize_* called directly) | "selected" (serialize())
          enc,     \* encoding (sequence of member encodings)
          out      \* loaded members
vars == <<phase, kind, ds, thr, how, enc, out>>

Fills == {<<"pad", 0>>, <<"pad", 1>>}

MetaOf(m, i, len) == << [k |-> "func", v |-> <<"g">>],
                        [k |-> "parity", v |-> <<ToString(i % 2)>>],
                        [k |-> "cells", v |-> [j \in 1..len |-> ToString(j)]] >>
\* member m with solution-length vector lens and a metadata mode
Member(m, lens, mode) ==
  LET mazes == [i \in 1..Len(lens) |->
                  [conn |-> <<m, i>>, sol |-> [j \in 1..lens[i] |-> <<m, i, j>>],
                   meta |-> IF mode = "permaze" THEN MetaOf(m, i, lens[i]) ELSE <<>>]]
      metas == [i \in 1..Len(lens) |-> MetaOf(m, i, lens[i])]
  IN [mazes |-> mazes,
      filters |-> IF mode = "collected" THEN <<CollectFilterName>> ELSE <<>>,
      coll |-> IF mode = "collected" THEN Collect(metas) ELSE NoCollected]
HasMeta(d) == Len(d.mazes) > 0 /\ d.mazes[1].meta # <<>>
Modes == {"permaze", "collected", "none"}
LenVecs(lo, hi, L) == UNION {[1..n -> 1..L] : n \in lo..hi}

\* the collect_generation_meta step used by the minimal family
Collected(d) ==
  IF d.coll.present \/ ~HasMeta(d) THEN d
  ELSE [mazes |-> [i \in 1..Len(d.mazes) |-> [d.mazes[i] EXCEPT !.meta = <<>>]],
        filters |-> d.filters \o <<CollectFilterName>>,
        coll |-> Collect([i \in 1..Len(d.mazes) |-> d.mazes[i].meta])]

Ser(f, d, fill) ==
  IF f = FULL THEN [fmt |-> FULL, filters |-> d.filters, coll |-> d.coll, mazes |-> d.mazes]
  ELSE LET c == Collected(d)
           sols == [i \in 1..Len(c.mazes) |-> c.mazes[i].sol]
           base == [fmt |-> f, filters |-> c.filters, coll |-> c.coll,
                    conns |-> [i \in 1..Len(c.mazes) |-> c.mazes[i].conn], lens |-> Lens(sols)]
       IN IF f = MINIMAL THEN base @@ [pad |-> EncPad(sols, fill)] ELSE base @@ [cat |-> EncCat(sols)]

Load(e) ==
  IF e.fmt = FULL THEN [mazes |-> [i \in 1..Len(e.mazes) |-> [conn |-> e.mazes[i].conn, sol |-> e.mazes[i].sol]],
                        filters |-> e.filters, coll |-> e.coll]
  ELSE [mazes |-> ZipMazes(e.conns, IF e.fmt = MINIMAL THEN DecPad(e.lens, e.pad) ELSE DecCat(e.lens, e.cat)),
        filters |-> e.filters, coll |-> e.coll]

Init == phase = "init" /\ kind = "single" /\ ds = <<>> /\ thr = NoThr /\ how = "private" /\ enc = <<>> /\ out = <<>>

BuildSingle ==
  /\ phase = "init"
  /\ \E lens \in LenVecs(1, MaxMazes, MaxLen), mode \in Modes :
       /\ ds' = <<Member(1, lens, mode)>> /\ kind' = "single"
  /\ phase' = "built" /\ UNCHANGED <<thr, how, enc, out>>

CollMembers(m) == {Member(m, lens, mode) : lens \in LenVecs(1, 2, 2), mode \in Modes} \cup {Member(m, <<>>, "none")}
BuildColl ==
  /\ phase = "init"
  /\ \E k \in 1..MaxMembers : \E ms \in [1..k -> UNION {CollMembers(m) : m \in 1..MaxMembers}] :
       /\ \A m \in 1..k : ms[m] \in CollMembers(m)
       /\ ds' = ms /\ kind' = "coll"
  /\ phase' = "built" /\ UNCHANGED <<thr, how, enc, out>>

ThresholdsFor(n) == {NoThr, Thr(0), Thr(1), Thr(n), Thr(n + 1), Thr(100)}

SerializePrivate ==
  /\ phase = "built" /\ kind = "single"
  /\ \E f \in FormatNames, fill \in Fills : enc' = <<Ser(f, ds[1], fill)>>
  /\ how' = "private" /\ phase' = "serialized" /\ UNCHANGED <<kind, ds, thr, out>>

\* serialize(): every member picks its format by the threshold; a member may be empty only when
\* the full format is selected for it (the minimal family needs max over >= 1 solution)
SerializeSelected ==
  /\ phase = "built"
  /\ \E t \in UNION {ThresholdsFor(Len(ds[m].mazes)) : m \in 1..Len(ds)}, fill \in Fills :
       /\ \A m \in 1..Len(ds) : Len(ds[m].mazes) = 0 => Select(t, 0) = FULL
       /\ thr' = t
       /\ enc' = [m \in 1..Len(ds) |-> Ser(Select(t, Len(ds[m].mazes)), ds[m], fill)]
  /\ how' = "selected" /\ phase' = "serialized" /\ UNCHANGED <<kind, ds, out>>

LoadIt ==
  /\ phase = "serialized"
  /\ out' = [m \in 1..Len(enc) |-> Load(enc[m])]
  /\ phase' = "loaded" /\ UNCHANGED <<kind, ds, thr, how, enc>>

Next == BuildSingle \/ BuildColl \/ SerializePrivate \/ SerializeSelected \/ LoadIt
Spec == Init /\ [][Next]_vars

\* ------------------------------------------------------------------ invariants
Start(s) == s[1]
End(s) == s[Len(s)]
MemberRoundTrip(d, e, o) ==
  /\ Len(o.mazes) = Len(d.mazes)
  /\ \A i \in 1..Len(d.mazes) :
       /\ o.mazes[i].conn = d.mazes[i].conn
       /\ o.mazes[i].sol = d.mazes[i].sol
       /\ Start(o.mazes[i].sol) = Start(d.mazes[i].sol) /\ End(o.mazes[i].sol) = End(d.mazes[i].sol)
  \* equal configuration (provenance list), up to the documented collect entry of the minimal family
  /\ o.filters = d.filters \o (IF WillCollect(e.fmt, d.coll.present, HasMeta(d)) THEN <<CollectFilterName>> ELSE <<>>)
  \* collected metadata, when present, keeps keys and counts
  /\ d.coll.present => o.coll = d.coll
  /\ WillCollect(e.fmt, d.coll.present, HasMeta(d)) =>
       o.coll = Collect([i \in 1..Len(d.mazes) |-> d.mazes[i].meta])
RoundTrip == phase = "loaded" =>
  /\ Len(out) = Len(ds)
  /\ \A m \in 1..Len(ds) : MemberRoundTrip(ds[m], enc[m], out[m])
SelectRule == (phase \in {"serialized", "loaded"} /\ how = "selected") =>
  \A m \in 1..Len(ds) : enc[m].fmt = (IF thr.none THEN FULL ELSE IF Len(ds[m].mazes) >= thr.v THEN MINIMAL ELSE FULL)
\* the encodings themselves: lengths, padded shape, concatenation
EncodingShape == phase \in {"serialized", "loaded"} =>
  \A m \in 1..Len(enc) :
    LET e == enc[m]  sols == [i \in 1..Len(ds[m].mazes) |-> ds[m].mazes[i].sol] IN
    /\ e.fmt = MINIMAL => e.lens = Lens(sols) /\ IsPadOf(e.pad, sols)
    /\ e.fmt = CAT => e.lens = Lens(sols) /\ e.cat = Flatten(sols) /\ Len(e.cat) = SumSeq(e.lens)
=============================================================================
