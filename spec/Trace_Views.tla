---------------------------- MODULE Trace_Views ----------------------------
(* Use (C) for C13: one record per maze carries the RAW outputs of every graph view of the real
   LatticeMaze / SolvedMaze / token_utils / utils code; each is judged against the definitions of
   GraphViews.tla (Part 1, graph level) evaluated on the record's raw connection array.
   Record kinds:
     "maze":    R, C, conn, err (names of views that raised or returned a malformed array), and
        nodes  get_nodes()                                  [[r,c],...]
        deg    coord_degrees()                              R x C matrix
        nb     get_coord_neighbors(a) for EVERY cell        [[a, [b,...]],...]
        nc     nodes_connected(a,b)                         [[ar,ac,br,bc,res],...]      res 0/1
        comp   gen_connected_component_from(a)              [[a, [cells...]],...]
        paths  is_valid_path(p, empty_is_valid)             [[p, eiv, res],...]          res 0/1 (2 = raised)
        adj    as_adj_list(shuffle_d0, shuffle_d1)          [[d0, d1, [[a,b],...]],...]
        rt     from_adj_list(as_adj_list(d0,d1))            [[d0, d1, ok, conn'],...]    ok 0/1 (square only)
        isconn is_connection(batch of lattice edges, conn)  [[a, b, res],...]
        sols   forks / path-following points of SolvedMaze  [[sol, fidx, fco, eidx, eco, pidx, pco],...]
     "lattice": n, lca = lattice_connection_array(n), md = manhattan_distance(lca),
                md2 = [[a, b, dist],...], maxdeg = lattice_max_degrees(n) ([] when n < 2)
   Both kinds: argmod = names of calls after which an argument array (or the maze's own connection
   structure: "maze:<view>") differed from its snapshot.
   "maze" also: isconn0 = sizes of the answers to an EMPTY edge batch (-1 = raised);
                sols_m  = like sols, for walks that revisit cells.
   All clauses are Layer P (the property's own statement) except those named "M:..." (Layer M:
   the statement is silent on them): a call that modifies its argument, the answer to an empty
   batch, the fork rule on walks that are not simple paths. *)
EXTENDS GraphViews, Json, IOUtils, SequencesExt
Log == ndJsonDeserialize(IOEnv.VERIF_LOG)

V(ok, name) == IF ok THEN {} ELSE {name}
NoDup(q) == Cardinality(CellSet(q)) = Len(q)
IdxSet(q) == {q[k] : k \in 1..Len(q)}

\* indices + coordinates returned for a solution: the index list is duplicate-free and denotes `want`,
\* and the k-th coordinate is the solution cell at the k-th index
IdxOk(sol, idx, want) == Cardinality(IdxSet(idx)) = Len(idx) /\ IdxSet(idx) = want
CoordsOk(sol, idx, co) ==
  /\ Len(co) = Len(idx)
  /\ \A k \in 1..Len(idx) : (idx[k] >= 0 /\ idx[k] < Len(sol)) => Cell(co[k]) = Cell(sol[idx[k] + 1])

SolClauses(R, C, cn, e) ==
  LET sol == e[1]  n == Len(sol)
      F == ForkIdxs(R, C, cn, sol, FALSE)
  IN V(IdxOk(sol, e[2], F), "fork_idxs")
     \cup V(CoordsOk(sol, e[2], e[3]), "fork_coords")
     \cup V(IdxOk(sol, e[4], ForkIdxs(R, C, cn, sol, TRUE)) /\ CoordsOk(sol, e[4], e[5]), "fork_always_include_endpoints")
     \cup V(IdxOk(sol, e[6], (0..(n - 1)) \ F), "path_following_idxs")
     \cup V(CoordsOk(sol, e[6], e[7]), "path_following_coords")
     \cup V(IdxSet(e[2]) \cap IdxSet(e[6]) = {} /\ IdxSet(e[2]) \cup IdxSet(e[6]) = 0..(n - 1), "forks_and_following_partition")

AdjClauses(R, C, cn, E, q) ==
  V(\A k \in 1..Len(q) : AdjEntryIsEdge(R, C, cn, q[k]), "adj_list_entry_not_a_connection")
  \cup V(Cardinality(AdjSlots(q)) = Len(q), "adj_list_connection_twice")
  \cup V(E \subseteq AdjSlots(q), "adj_list_connection_missing")

MazeClauses(r) ==
  LET R == r.R  C == r.C  cn == r.conn
      cells == CellsOf(R, C)
      E == EdgeSlots(R, C, cn)
  IN
  {"raised_or_malformed:" \o r.err[k] : k \in 1..Len(r.err)}
  \cup {"M:argument_modified:" \o r.argmod[k] : k \in 1..Len(r.argmod)}
  \cup V(\A k \in 1..Len(r.isconn0) : r.isconn0[k] = 0, "M:is_connection_empty_batch")
  \cup UNION {{"M:nonsimple_solution:" \o x : x \in SolClauses(R, C, cn, r.sols_m[k])} : k \in 1..Len(r.sols_m)}
  \cup V(Len(r.nodes) = R * C /\ CellSet(r.nodes) = Nodes(R, C), "get_nodes")
  \cup V(/\ Len(r.deg) = R
         /\ \A i \in 1..R : /\ Len(r.deg[i]) = C
                            /\ \A j \in 1..C : r.deg[i][j] = DegreeOf(R, C, cn, <<i - 1, j - 1>>), "coord_degrees")
  \cup V(/\ {Cell(r.nb[k][1]) : k \in 1..Len(r.nb)} = cells
         /\ \A k \in 1..Len(r.nb) : /\ NoDup(r.nb[k][2])
                                    /\ CellSet(r.nb[k][2]) = Neighbours(R, C, cn, Cell(r.nb[k][1])), "get_coord_neighbors")
  \cup V(\A k \in 1..Len(r.nc) :
           LET e == r.nc[k] IN (e[5] = 1) = NodesConnected(R, C, cn, <<e[1], e[2]>>, <<e[3], e[4]>>), "nodes_connected")
  \cup V(\A k \in 1..Len(r.comp) : /\ NoDup(r.comp[k][2])
                                   /\ CellSet(r.comp[k][2]) = Component(R, C, cn, Cell(r.comp[k][1])), "connected_component")
  \cup V(\A k \in 1..Len(r.paths) :
           LET e == r.paths[k] IN Len(e[1]) = 0 \/ e[3] = (IF ValidPath(R, C, cn, e[1], e[2] = 1) THEN 1 ELSE 0), "is_valid_path")
  \cup V(\A k \in 1..Len(r.paths) :
           LET e == r.paths[k] IN Len(e[1]) # 0 \/ e[3] = (IF ValidPath(R, C, cn, e[1], e[2] = 1) THEN 1 ELSE 0), "is_valid_path_empty")
  \cup UNION {AdjClauses(R, C, cn, E, r.adj[k][3]) : k \in 1..Len(r.adj)}
  \cup (IF RebuildPremise(R, C, cn)
          THEN V(Len(r.rt) > 0 /\ \A k \in 1..Len(r.rt) : r.rt[k][3] = 1 /\ r.rt[k][4] = cn, "from_adj_list_roundtrip")
          ELSE {})
  \cup V(\A k \in 1..Len(r.isconn) :
           LET e == r.isconn[k] IN (e[3] = 1) = NodesConnected(R, C, cn, Cell(e[1]), Cell(e[2])), "is_connection")
  \cup UNION {SolClauses(R, C, cn, r.sols[k]) : k \in 1..Len(r.sols)}

LatticeClauses(r) ==
  LET n == r.n  q == r.lca IN
  {"raised_or_malformed:" \o r.err[k] : k \in 1..Len(r.err)}
  \cup {"M:argument_modified:" \o r.argmod[k] : k \in 1..Len(r.argmod)}
  \cup V(/\ Len(q) = 2 * n * (n - 1)
    /\ \A k \in 1..Len(q) : /\ InGridCell(n, n, Cell(q[k][1])) /\ InGridCell(n, n, Cell(q[k][2]))
                            /\ Adjacent(Cell(q[k][1]), Cell(q[k][2]))
    /\ AdjSlots(q) = InteriorSlots(n, n), "lattice_connection_array")
  \cup V(/\ Len(r.md) = Len(q) /\ \A k \in 1..Len(r.md) : r.md[k] = 1
         /\ \A k \in 1..Len(r.md2) : r.md2[k][3] = Manhattan(Cell(r.md2[k][1]), Cell(r.md2[k][2])), "manhattan_distance")
  \cup (IF n >= 2
          THEN V(/\ Len(r.maxdeg) = n
                 /\ \A i \in 1..n : /\ Len(r.maxdeg[i]) = n
                                    /\ \A j \in 1..n : r.maxdeg[i][j] = Cardinality(Nb4(n, n, <<i - 1, j - 1>>)), "lattice_max_degrees")
          ELSE {})

Clauses(r) == IF r.kind = "lattice" THEN LatticeClauses(r) ELSE MazeClauses(r)

VARIABLES l, bad
tvars == <<gvars, l, bad>>
TInit == l = 1 /\ bad = {} /\ gR = 0 /\ gC = 0 /\ gconn = <<>>
TNext == /\ l <= Len(Log) /\ l' = l + 1 /\ UNCHANGED gvars
         /\ bad' = bad \cup (LET cs == Clauses(Log[l]) IN IF cs = {} THEN {} ELSE {[id |-> Log[l].id, c |-> cs]})
TSpec == TInit /\ [][TNext]_tvars
Done == (l = Len(Log) + 1) =>
          ndJsonSerialize(IOEnv.VERIF_OUT, <<[id |-> -1, c |-> {ToString(Len(Log))}]>> \o SetToSeq(bad))
============================================================================
