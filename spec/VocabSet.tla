---------------------------- MODULE VocabSet ----------------------------
(* The fixed vocabulary of MazeTokenizerModular as a SET (C06 needs membership only; the ORDER of
   the 4096 tokens is C14's business and lives in another module).  Built from the published
   layout of the vocabulary (its blocks), never read from the code:

     11 special tokens | 9 coordinate/target/path delimiters | 26 + 9 target labels |
     9 path words | "+0".."+255" | "0".."127" | "-256".."-1" | 4 adjacency/step words |
     "<RESERVE_708>".."<RESERVE_1595>" | "(i,j)" for 0 <= i,j < 50                  = 4096 tokens *)
EXTENDS Naturals, Sequences, FiniteSets, TLC

VLetters == {"A","B","C","D","E","F","G","H","I","J","K","L","M","N","O","P","Q","R","S","T","U","V","W","X","Y","Z"}
VSpecials == {"<ADJLIST_START>", "<ADJLIST_END>", "<TARGET_START>", "<TARGET_END>", "<ORIGIN_START>", "<ORIGIN_END>",
              "<PATH_START>", "<PATH_END>", "<-->", ";", "<PADDING>"}
VDelims == {"(", ",", ")", "=", "||", ":", "THEN", "-", "<UNK>"}
VTargets == {"TARGET_" \o x : x \in VLetters}
            \cup {"TARGET_NORTH", "TARGET_SOUTH", "TARGET_EAST", "TARGET_WEST", "TARGET_NORTHEAST",
                  "TARGET_NORTHWEST", "TARGET_SOUTHEAST", "TARGET_SOUTHWEST", "TARGET_CENTER"}
VPathWords == {"NORTH", "SOUTH", "EAST", "WEST", "FORWARD", "BACKWARD", "LEFT", "RIGHT", "STAY"}
VPosInts == {"+" \o ToString(k) : k \in 0..255}
VCTTInts == {ToString(k) : k \in 0..127}
VNegInts == {"-" \o ToString(k) : k \in 1..256}
VMisc == {"STEP", "ADJ_GROUP", "&", "<XX>"}
VReserves == {"<RESERVE_" \o ToString(k) \o ">" : k \in 708..1595}
VMaxGrid == 50                     \* unique coordinate tokens exist for grids up to 50 x 50
VMaxCTT == 128                     \* integer coordinate tokens "0".."127"
VMaxDistance == 255                \* "+0".."+255"
VCoords == {"(" \o ToString(i) \o "," \o ToString(j) \o ")" : i \in 0..(VMaxGrid-1), j \in 0..(VMaxGrid-1)}

VocabSet == VSpecials \cup VDelims \cup VTargets \cup VPathWords \cup VPosInts \cup VCTTInts \cup VNegInts
            \cup VMisc \cup VReserves \cup VCoords

\* the blocks are pairwise disjoint and add up to the published size
VocabWellFormed == Cardinality(VocabSet) = 4096
                   /\ Cardinality(VSpecials) + Cardinality(VDelims) + Cardinality(VTargets) + Cardinality(VPathWords)
                      + Cardinality(VPosInts) + Cardinality(VCTTInts) + Cardinality(VNegInts) + Cardinality(VMisc)
                      + Cardinality(VReserves) + Cardinality(VCoords) = 4096
=======================================================================
