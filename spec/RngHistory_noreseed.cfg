CONSTANTS Seeds <- Seeds12  Cfgs <- CfgsAB  SeedOf <- SeedMap  UsesPy <- PyMap  NFilters <- FilterMap
  K = 2  MaxSteps = 6  ReseedOnCopy = FALSE
SPECIFICATION Spec
VIEW NoHist
INVARIANT Deterministic
INVARIANT PureFunctionOfCfg
CHECK_DEADLOCK FALSE
