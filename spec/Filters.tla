------------------------------ MODULE Filters ------------------------------
(* C08: dataset filters over a HEAP of objects with identity.
   A dataset object d has  cfg (the id of its config object), mazes (a sequence of abstract mazes),
   collected (has collect_generation_meta run).  A config object has  filters (the provenance list:
   sequence of <<name, arg>>) and n (the recorded maze count).
   Every filter returns a NEW dataset with a NEW config (the wrappers deep-copy) holding exactly the selected
   mazes in their original order, appends <<name, arg>> to the new config's provenance and updates its count.
   The documented exception is CollectMeta, which works in place.  DeepCopy = FALSE is the deliberately broken
   design in which the result shares the input's config object (provenance leaks into the input).
   An abstract maze is <<len, dist, c, s>>: solution length, start-end manhattan distance, a coordinate of the
   connection structure and of the solution such that the number of differing entries between two mazes is
   |c1 - c2| resp. |s1 - s2| (solutions of different length never count as near-duplicates). *)
EXTENDS FilterRules, TLC
CONSTANTS MazeVals, MaxLen, MaxOps, DeepCopy
VARIABLES ds, cf, nextId, ops, born
fvars == <<ds, cf, nextId, ops, born>>
AbsD(x) == IF x < 0 THEN 0 - x ELSE x
Len_(m) == m[1]
Dist_(m) == m[2]
CDiff(a, b) == AbsD(a[3] - b[3])
SDiff(a, b) == AbsD(a[4] - b[4])
SameLen(a, b) == a[1] = b[1]
\* ---- the documented selections come from FilterRules, instantiated with the abstract accessors
NearDup(a, b, ta, tb) == (ta >= 0 /\ CDiff(a, b) <= ta) \/ (tb >= 0 /\ SameLen(a, b) /\ SDiff(a, b) <= tb)
\* ---- heap operations
Init == \E q \in UNION {[1..n -> MazeVals] : n \in 0..MaxLen} :
          /\ ds = [i \in {1} |-> [cfg |-> 2, mazes |-> q, collected |-> FALSE]]
          /\ cf = [i \in {2} |-> [filters |-> <<>>, n |-> Len(q)]]
          /\ nextId = 3 /\ ops = 0 /\ born = [i \in {1} |-> [mazes |-> q, filters |-> <<>>, n |-> Len(q)]]
Apply(d, name, arg, keep) ==
  /\ ops < MaxOps /\ d \in DOMAIN ds
  /\ LET out == SelSeq(ds[d].mazes, keep)
         nd == nextId
         nc == IF DeepCopy THEN nextId + 1 ELSE ds[d].cfg
         oldf == cf[ds[d].cfg].filters IN
     /\ ds' = [i \in DOMAIN ds \cup {nd} |-> IF i = nd THEN [cfg |-> nc, mazes |-> out, collected |-> ds[d].collected] ELSE ds[i]]
     /\ cf' = [i \in DOMAIN cf \cup {nc} |-> IF i = nc THEN [filters |-> Append(oldf, <<name, arg>>), n |-> Len(out)] ELSE cf[i]]
     /\ born' = [i \in DOMAIN born \cup {nd} |-> IF i = nd THEN [mazes |-> out, filters |-> Append(oldf, <<name, arg>>), n |-> Len(out)] ELSE born[i]]
     /\ nextId' = nextId + 2 /\ ops' = ops + 1
PathLength(d, k) == Apply(d, "path_length", k, KeepPathLength(Len_, ds[d].mazes, k))
StartEndDistance(d, k) == Apply(d, "start_end_distance", k, KeepDistance(Dist_, ds[d].mazes, k))
Truncate(d, k) == Apply(d, "truncate_count", k, KeepTruncate(ds[d].mazes, k))
RemoveDupFast(d) == Apply(d, "remove_duplicates_fast", 0, KeepFirstOcc(ds[d].mazes))
RemoveDup(d, ta, tb) == Apply(d, "remove_duplicates", ta * 10 + tb, KeepNoLaterNear(NearDup, ds[d].mazes, ta, tb))
CutPercentile(d, p) == Len(ds[d].mazes) > 0 /\ Apply(d, "cut_percentile_shortest", p, KeepAbove(Len_, ds[d].mazes, Cutoff(Len_, ds[d].mazes, p)))
\* in place: the documented exception
CollectMeta(d) ==
  /\ ops < MaxOps /\ d \in DOMAIN ds /\ ~ds[d].collected
  /\ ds' = [ds EXCEPT ![d].collected = TRUE]
  /\ cf' = [cf EXCEPT ![ds[d].cfg].filters = Append(@, <<"collect_generation_meta", 0>>)]
  /\ born' = [i \in DOMAIN born |-> IF ds[i].cfg = ds[d].cfg THEN [born[i] EXCEPT !.filters = Append(@, <<"collect_generation_meta", 0>>)] ELSE born[i]]
  /\ UNCHANGED nextId /\ ops' = ops + 1
Next == \E d \in DOMAIN ds :
          \/ \E k \in 0..3 : PathLength(d, k) \/ StartEndDistance(d, k) \/ Truncate(d, k)
          \/ RemoveDupFast(d) \/ (\E ta, tb \in {-1, 0, 1} : RemoveDup(d, ta, tb))
          \/ (\E p \in {0, 25, 50, 90, 100} : CutPercentile(d, p)) \/ CollectMeta(d)
Spec == Init /\ [][Next]_fvars
\* ---- C08 at the design level
\* no dataset ever changes after it was returned (except the provenance entry of the in-place metadata collection)
InputUntouched == \A d \in DOMAIN ds : /\ ds[d].mazes = born[d].mazes
                                       /\ cf[ds[d].cfg].filters = born[d].filters /\ cf[ds[d].cfg].n = born[d].n
CountUpdated == \A d \in DOMAIN ds : cf[ds[d].cfg].n = Len(ds[d].mazes)
NoSharedCfg == \A a, b \in DOMAIN ds : a # b => ds[a].cfg # ds[b].cfg
\* a result is a subsequence of the root dataset: filters only select
IsSubseqOf(s, t) == \E f \in [1..Len(s) -> 1..Len(t)] : (\A i \in 1..Len(s) : t[f[i]] = s[i]) /\ (\A i, j \in 1..Len(s) : i < j => f[i] < f[j])
OnlySelects == \A d \in DOMAIN ds : IsSubseqOf(ds[d].mazes, ds[1].mazes)
MazeVals8 == {<<1, 0, 0, 0>>, <<1, 0, 0, 1>>, <<2, 1, 0, 0>>, <<2, 1, 1, 0>>, <<2, 2, 1, 2>>, <<3, 2, 2, 1>>}
==============================================================================
