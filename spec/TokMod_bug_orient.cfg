CONSTANTS DShapes <- ShapesTiny12
CONSTANTS DPathShapes <- NoShapes
CONSTANTS DCoords <- CoordsUT
CONSTANTS MaxShuffle = 3
CONSTANTS DBug = "sorted_emits_greater_first"
SPECIFICATION Spec
INVARIANT AcceptsEveryShuffle
CHECK_DEADLOCK FALSE
