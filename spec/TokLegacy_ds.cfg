\* C07 dataset level: every dataset of <= 2 mazes over 1x2 / 2x1 x limit in {None,0,1,2,3} x join x every
\* admissible output
SPECIFICATION SpecDS
CONSTANTS
  Shapes <- ShapesDS
  CoordKinds <- BothCoordKinds
  MaxSol = 1
  TreesOnly = FALSE
  WhichKinds <- PlainAndSolved
  BrokenLimit = FALSE
INVARIANTS DSAccepted DSMember DSRejectsWrong
CHECK_DEADLOCK FALSE
