CONSTANTS Bound = 50
          UseShell = TRUE
SPECIFICATION Spec
INVARIANT Done
CHECK_DEADLOCK FALSE
