CONSTANTS Shapes <- ShapesTiny
CONSTANTS BugWestSlice = FALSE
CONSTANTS BugNoSort = FALSE
SPECIFICATION TSpec
INVARIANT Done
CHECK_DEADLOCK FALSE
