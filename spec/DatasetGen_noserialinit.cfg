CONSTANTS Cfgs <- CfgsAB
  NMazes = 3  MaxWorkers = 3  MaxCalls = 2  InitSetsGlobal = TRUE  SerialInits = FALSE
SPECIFICATION Spec
INVARIANT ItemFromThisCfg
CHECK_DEADLOCK FALSE
