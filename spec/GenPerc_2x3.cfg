CONSTANTS Shapes <- Shapes2x3
  PKinds <- PAll
SPECIFICATION Spec
INVARIANT InGridWhenDone
INVARIANT Extremes
INVARIANT MetaTruth
CHECK_DEADLOCK FALSE
