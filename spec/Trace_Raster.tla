---------------------------- MODULE Trace_Raster ----------------------------
(* Use (C) for C17.  Records (one JSON object per line), images palette-indexed with the library's own
   PixelColors table (rows of codes 0..4 as in Pixels.tla; any other colour = 9):
     kind = "item"  one call process_maze_rasterized_input_target(maze, ric, ext, eao) or dataset[i]:
                    maze (harness/mz.py proj), ric, ext, eao, res = "ok" | "raise:<Type>", inp, tgt
     kind = "ds"    one RasterizedMazeDataset: mazes, ric, ext, eao (the options ASKED for),
                    res (construction outcome), items = [[res, inp, tgt] of dataset[i]] for every i,
                    batches = [[idxs, res, out] of get_batch(idxs)], out = nested lists as returned
     kind = "ric" / "ext"   the post-processing helper applied to an arbitrary image: img, res, out
   Layer P: raises, input_size, input_image, target_size, target_image, remove_isolated, extend_shape,
            extend_pixels, construct_raises, batch_raises, batch_order, helper_raises
   Layer M: M:input_malformed (driver bug), M:batch_layout (the statement fixes the ORDER of the items,
            not which tensor axis comes first: the type annotation says [in/tgt, item], a comment in
            make_numpy_collection says [item, in/tgt]; both are accepted, the second is reported here),
            M:helper_unavailable (private helper not importable).
   A batch of an empty index list may be refused (the statement does not say); if it is returned it
   must be empty.
   Audit 2 (argument aliasing / representations), all Layer M because the statement is about the returned
   images only and annotates `maze: SolvedMaze`, `bool` options, `idxs: list[int] | None`:
     argmod (item, ds, batch, helper) = the call changed one of the caller's own objects (the maze's arrays /
            generation_meta, the base dataset's config, added_params, the index list, the image)
            -> M:argument_modified.  The damage is Layer P all the same: the records that follow on the same
            object are judged against the object as it was BEFORE (the driver projects it once).
     alias  (helper) = the returned image shares memory with the argument -> M:result_aliases_argument
     call = "npbool" (item): options handed over as numpy.bool_ - any failure -> M:option_representation
            ("kw" keywords, "pos" positional, "dflt" only the options that differ from the documented
            defaults (True, True, False) are passed: Layer P)
     rep (batch) = how the index list was handed over: "list" (also "none", and "npints" = a list of numpy
            ints: the annotated type, Layer P); "tuple" / "nd64" / "nd32" (other sequences: refusing them is
            M:batch_index_representation, a RETURNED batch must be right - Layer P); "range" / "gen"
            (one-shot / lazy iterables: everything M:batch_index_representation). *)
EXTENDS Raster, Json, IOUtils, SequencesExt
Log == ndJsonDeserialize(IOEnv.VERIF_LOG)

MazeOK(m) == WellFormedMaze(m) /\ IsSolved(m)
ImageOK(img) == Len(img) >= 1 /\ Len(img[1]) >= 1 /\ Rectangular(img) /\ \A y \in 1..Len(img) : \A x \in 1..Len(img[y]) : img[y][x] \in Colours

ItemClauses(m, ric, ext, eao, res, inp, tgt) ==
  IF res # "ok" THEN {"raises"}
  ELSE StageClauses("input", inp, InputImg(m), ric, ext) \cup StageClauses("target", tgt, TargetImg(m, eao), ric, ext)

BatchCore(items, b) ==
  LET idxs == b.idxs  n == Len(idxs)  bo == b.out IN
  IF \E k \in 1..n : items[idxs[k] + 1].res # "ok" THEN {}          \* reported per item
  ELSE IF n = 0 THEN (IF b.res # "ok" \/ Len(bo) = 0 \/ \A a \in 1..Len(bo) : Len(bo[a]) = 0 THEN {} ELSE {"batch_order"})
  ELSE IF b.res # "ok" THEN {"batch_raises"}
  ELSE IF /\ Len(bo) = 2 /\ Len(bo[1]) = n /\ Len(bo[2]) = n
          /\ \A k \in 1..n : bo[1][k] = items[idxs[k] + 1].inp /\ bo[2][k] = items[idxs[k] + 1].tgt THEN {}
  ELSE IF /\ Len(bo) = n
          /\ \A k \in 1..n : Len(bo[k]) = 2 /\ bo[k][1] = items[idxs[k] + 1].inp /\ bo[k][2] = items[idxs[k] + 1].tgt THEN {"M:batch_layout"}
  ELSE {"batch_order"}

ArgMod(r) == IF r.argmod THEN {"M:argument_modified"} ELSE {}
BatchClauses(items, b) ==
  LET cs == BatchCore(items, b) IN
  ArgMod(b) \cup
  (IF cs = {} THEN {}
   ELSE IF b.rep \in {"range", "gen"} THEN {"M:batch_index_representation"}
   ELSE IF b.rep \in {"tuple", "nd64", "nd32"} /\ cs = {"batch_raises"} THEN {"M:batch_index_representation"}
   ELSE cs)

DsClauses(r) ==
  IF \E i \in 1..Len(r.mazes) : ~MazeOK(r.mazes[i]) THEN {"M:input_malformed"}
  ELSE IF r.res # "ok" THEN {"construct_raises"}
  ELSE IF Len(r.items) # Len(r.mazes) THEN {"M:input_malformed"}
  ELSE UNION {ItemClauses(r.mazes[i], r.ric, r.ext, r.eao, r.items[i].res, r.items[i].inp, r.items[i].tgt) : i \in 1..Len(r.mazes)}
       \cup UNION {BatchClauses(r.items, r.batches[k]) : k \in 1..Len(r.batches)}
       \cup ArgMod(r)

HelperClauses(r) ==
  IF r.res = "na" THEN {"M:helper_unavailable"}
  ELSE IF ~ImageOK(r.img) THEN {"M:input_malformed"}
  ELSE IF r.res # "ok" THEN {"helper_raises"}
  ELSE ArgMod(r) \cup (IF r.alias THEN {"M:result_aliases_argument"} ELSE {}) \cup
       (IF r.kind = "ric" THEN (IF r.out = RemoveIsolated(r.img) THEN {} ELSE {"remove_isolated"})
        ELSE LET e == Extend(r.img) IN
             IF r.out = e THEN {} ELSE IF SameShape(r.out, e) THEN {"extend_pixels"} ELSE {"extend_shape"})

Clauses(r) ==
  IF r.kind = "item" THEN (IF ~MazeOK(r.maze) THEN {"M:input_malformed"}
                           ELSE LET cs == ItemClauses(r.maze, r.ric, r.ext, r.eao, r.res, r.inp, r.tgt) IN
                                ArgMod(r) \cup (IF r.call = "npbool" /\ cs # {} THEN {"M:option_representation"} ELSE cs))
  ELSE IF r.kind = "ds" THEN DsClauses(r)
  ELSE IF r.kind \in {"ric", "ext"} THEN HelperClauses(r)
  ELSE {"M:input_malformed"}

VARIABLES l, bad
TInit == l = 1 /\ bad = {} /\ mz = NoMaze /\ opt = <<>> /\ out = <<>> /\ pc = "trace"
TNext == /\ l <= Len(Log) /\ l' = l + 1
        /\ bad' = bad \cup (LET cs == Clauses(Log[l]) IN IF cs = {} THEN {} ELSE {[id |-> Log[l].id, c |-> cs]})
        /\ UNCHANGED vars
TSpec == TInit /\ [][TNext]_<<l, bad, vars>>
Done == (l = Len(Log) + 1) =>
          ndJsonSerialize(IOEnv.VERIF_OUT, <<[id |-> -1, c |-> {ToString(Len(Log))}]>> \o SetToSeq(bad))
=========================================================================
