\* C07 design check of the implementation's ONE-side grid inference (TokLegacy!ParseSq / PadSq): all graphs of the shapes
\* 1x1,1x2,2x1,1x3,3x1,2x2 x three kinds (solutions of one cell) x {UT, CTT} x every admissible emission:
\* under the premise the re-parse is the maze on the square grid of side max(R, C), which is the maze itself iff it is square
SPECIFICATION Spec
CONSTANTS
  Shapes <- ShapesL1
  CoordKinds <- BothCoordKinds
  MaxSol = 1
  TreesOnly = FALSE
  WhichKinds <- Kinds
  BrokenLimit = FALSE
INVARIANTS SquareInference RoundTrip
CHECK_DEADLOCK FALSE
