CONSTANTS Bases <- BasesAB  Filters <- FiltersPT  Paths <- PathsXY
  MaxFl = 2  MaxHandles = 4  MaxColls = 2  MaxOps = 5  KeyIncludesFilters = FALSE  Views <- NoViews
SPECIFICATION Spec
VIEW NoHist
INVARIANT NoMismatch
CHECK_DEADLOCK FALSE
