------------------------------ MODULE Uniform ------------------------------
(* C19: what "uniform over the spanning trees of the grid" means, stated on the lattice of Lattice.tla.
   A distribution record d has  R, C, exact (BOOLEAN), terms = sequence of [slots, num, den]
   (probability num/den of ending with exactly that set of connection slots).
   A frequency record f has R, C, draws, counts = sequence of [slots, n], thr = <<num, den>>
   (chi-square quantile the statistic must not exceed). *)
EXTENDS Lattice, TLC, SequencesExt
SlotSet(q) == {<<x[1], x[2], x[3]>> : x \in SeqToSet(q)}
SpanningTrees(R, C) ==
  {S \in SUBSET InteriorSlots(R, C) : Cardinality(S) = R * C - 1 /\ ReachS(R, C, S, <<0, 0>>) = CellsOf(R, C)}
\* |p - 1/N| : exact equality, or (rounded probabilities, den = 10^9) within 10^-5 relative
ProbIsOneOverN(t, N, exact) ==
  IF exact THEN t.num * N = t.den
  ELSE LET diff == t.num * N - t.den IN AbsI(diff) <= t.den \div 100000
DistClauses(d) ==
  LET ST == SpanningTrees(d.R, d.C)  N == Cardinality(ST)
      got == {SlotSet(d.terms[k].slots) : k \in 1..Len(d.terms)} IN
     (IF got \subseteq ST THEN {} ELSE {"terminal_output_not_a_spanning_tree"})
  \cup (IF ST \subseteq got THEN {} ELSE {"some_spanning_tree_has_probability_zero"})
  \cup (IF \A k \in 1..Len(d.terms) : ProbIsOneOverN(d.terms[k], N, d.exact) THEN {} ELSE {"tree_probability_not_one_over_N"})
\* saturating (TLC integers are 32 bit; a grossly non-uniform sample must be convicted, not overflow)
SumSq(q, e) == FoldSeq(LAMBDA x, acc : IF acc > 1000000000 THEN acc ELSE acc + (x.n - e) * (x.n - e), 0, q)
FreqClauses(f) ==
  LET ST == SpanningTrees(f.R, f.C)  N == Cardinality(ST)
      got == {SlotSet(f.counts[k].slots) : k \in 1..Len(f.counts)}
      E == f.draws \div N          \* the driver draws a multiple of N mazes
      unseen == N - Cardinality(got \cap ST)
      S == SumSq(f.counts, E) + unseen * E * E IN
     (IF got \subseteq ST THEN {} ELSE {"drawn_maze_not_a_spanning_tree"})
  \cup (IF ST \subseteq got THEN {} ELSE {"some_spanning_tree_never_drawn"})
  \cup (IF S <= (f.thr[1] * E) \div f.thr[2] THEN {} ELSE {"frequencies_not_uniform_chi_square"})
Clauses(r) == IF r.kind = "dist" THEN DistClauses(r) ELSE FreqClauses(r)
\* design-level sanity (model checked): the matrix-tree counts
ASSUME Cardinality(SpanningTrees(2, 2)) = 4
ASSUME Cardinality(SpanningTrees(2, 3)) = 15
ASSUME Cardinality(SpanningTrees(3, 3)) = 192
============================================================================
