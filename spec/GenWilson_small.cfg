CONSTANTS Shapes <- ShapesSmall
SPECIFICATION Spec
INVARIANT InGridInv
INVARIANT ForestOnVisited
INVARIANT WalkSimple
INVARIANT DoneSpanning
INVARIANT NoTrap
PROPERTY TreeGrows
PROPERTY CommitShrinks
CHECK_DEADLOCK FALSE
