CONSTANTS Shapes <- ShapesSmall
SPECIFICATION Spec
INVARIANT InGridInv
INVARIANT ForestOnVisited
INVARIANT WalkSimple
INVARIANT DoneSpanning
CHECK_DEADLOCK FALSE
