CONSTANTS Shapes <- ShapesTiny
SPECIFICATION TSpec
INVARIANT Done
CHECK_DEADLOCK FALSE
