CONSTANTS Shapes <- ShapesSmall
  AccSet <- AccMatrix  DepthSet <- DepthMatrix  ForkSet <- BothBool  RandSet <- BothBool  PercSet <- PercNone
SPECIFICATION FairSpec
PROPERTY Returns
PROPERTY Terminates
CHECK_DEADLOCK FALSE
