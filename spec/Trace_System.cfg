CONSTANTS Bases <- BasesAB  Filters <- FiltersPT  Paths <- PathsXY
  MaxFl = 2  MaxHandles = 50  MaxColls = 50  MaxOps = 1000  KeyIncludesFilters = TRUE  Views <- ViewsTP
SPECIFICATION TSpec
INVARIANT Done
CHECK_DEADLOCK FALSE
