CONSTANTS Shapes <- ShapesSmall
  AccSet <- AccMatrix  DepthSet <- DepthMatrix  ForkSet <- BothBool  RandSet <- BothBool  PercSet <- PercNone
SPECIFICATION Spec
PROPERTY Returns
CHECK_DEADLOCK FALSE
