CONSTANTS Cfgs <- CfgsAB
  NMazes = 3  MaxWorkers = 3  MaxCalls = 2  InitSetsGlobal = TRUE  SerialInits = TRUE
SPECIFICATION FairSpec
INVARIANT NoStuckCall
PROPERTY CallMakesProgress
PROPERTY EveryCallReturns
CHECK_DEADLOCK FALSE
