CONSTANTS Cfgs <- CfgsC12
  W = 3  MaxFaults = 3  MaxReqs = 3  CheckDiff = FALSE  SwallowReadErrors = TRUE
SPECIFICATION Spec
INVARIANT NeverWrongData
CHECK_DEADLOCK FALSE
