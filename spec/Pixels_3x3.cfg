CONSTANTS Shapes <- Shapes3x3
CONSTANTS ShortestOnly = TRUE
CONSTANTS Deep = FALSE
SPECIFICATION Spec
INVARIANT ScopeOK
INVARIANT RenderFaithful
INVARIANT PxPointwise
INVARIANT ClausesDetermine
INVARIANT DecodeInverts
INVARIANT SelfLoopNotReadable
INVARIANT NeverStuck
INVARIANT WalkPrefix
INVARIANT WalkDone
CHECK_DEADLOCK FALSE
