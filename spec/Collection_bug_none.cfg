SPECIFICATION Spec
CONSTANTS
  MaxLen = 3
  MaxMembers = 5
  SearchArg = "index_plus_1"
  Side = "left"
  Subtract = "none"
  CacheCum = "none"
  MazesBuild = "atomic"
INVARIANTS TypeOK GetIsConcat
CHECK_DEADLOCK FALSE
