------------------------------ MODULE Trace_Rng ------------------------------
(* Use (B)+(C) for C04: spec-generated histories were executed against the real library; the recorded
   observations are replayed through the ACTIONS of RngHistory.
   record: [id, events = sequence of [a, r, s, c, res, py, np, torch (observed fresh seed of the stream, 99 = none),
                                       dig (per-maze digests of the returned dataset), ref (reference digests computed
                                       in another process), before, after (digest of the argument config)]]
   Layer P: returned mazes = reference; argument config unchanged; no exception.
   Layer M: after every action each stream is where the model says it is. *)
EXTENDS RngHistory, Json, IOUtils, SequencesExt
Log == ndJsonDeserialize(IOEnv.VERIF_LOG)
VARIABLES tid, l, bad
tvars == <<rvars, tid, l, bad>>
T == Log[tid]
Ev == T.events[l]
Verdict(cs) == IF cs = {} THEN bad ELSE bad \cup {[id |-> T.id, c |-> cs]}
TInit == Init /\ tid = 1 /\ l = 1 /\ bad = {}
ObsOK(r, o) == LET x == rng'[r] IN IF x[1] = 0 THEN TRUE ELSE IF x[2] = 0 THEN o = x[1] ELSE o = 99
Act == CASE Ev.a = "Draw" -> Draw(Ev.r)
         [] Ev.a = "UserSeed" -> UserSeed(Ev.r, Ev.s)
         [] Ev.a = "NewConfig" -> NewConfig(Ev.s)
         [] Ev.a = "Generate" -> Generate(Ev.c)
         [] Ev.a = "FromConfig" -> FromConfig(Ev.c)
PClauses == IF Ev.res # "ok" THEN {"call_raised"}
            ELSE IF Ev.a \in {"Generate", "FromConfig"} THEN
                 (IF Ev.dig = Ev.ref THEN {} ELSE {IF Ev.a = "Generate" THEN "generated_mazes_differ_from_reference" ELSE "from_config_differs_from_generate_plus_filters"})
                 \* the statement forbids modifying the argument for the config-driven entry point; for a bare generate call it is
                 \* only the model's expectation (Layer M)
                 \cup (IF Ev.before = Ev.after THEN {} ELSE {IF Ev.a = "FromConfig" THEN "argument_config_modified" ELSE "M:generate_modified_its_argument"})
            ELSE {}
TStep == /\ tid <= Len(Log) /\ l <= Len(T.events)
         /\ Act
         /\ bad' = Verdict(PClauses \cup (IF ObsOK("py", Ev.py) /\ ObsOK("np", Ev.np) /\ ObsOK("torch", Ev.torch) THEN {} ELSE {"M:rng_stream_not_where_the_model_says"}))
         /\ l' = l + 1 /\ UNCHANGED tid
TNextTrace == /\ tid <= Len(Log) /\ l = Len(T.events) + 1
              /\ tid' = tid + 1 /\ l' = 1 /\ UNCHANGED bad
              /\ rng' = [r \in Streams |-> Fresh(0)] /\ log' = <<>> /\ steps' = 0 /\ hist' = <<>>
TNext == TStep \/ TNextTrace
TSpec == TInit /\ [][TNext]_tvars
Done == (tid = Len(Log) + 1) =>
          ndJsonSerialize(IOEnv.VERIF_OUT, <<[id |-> -1, c |-> {ToString(Len(Log))}]>> \o SetToSeq(bad))
==============================================================================
