CONSTANTS Cfgs <- CfgsC12
  W = 3  MaxFaults = 3  MaxReqs = 3  CheckDiff = TRUE  SwallowReadErrors = FALSE
SPECIFICATION Spec
INVARIANT NoReadError
CHECK_DEADLOCK FALSE
