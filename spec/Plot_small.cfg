CONSTANTS Shapes <- ShapesC20
CONSTANTS ULs <- ULsSmall
CONSTANTS TransposeCoord = FALSE
CONSTANTS SwapStripIndex = FALSE
CONSTANTS HackInBothBranches = FALSE
CONSTANTS Deep = FALSE
SPECIFICATION Spec
INVARIANT Partition
INVARIANT StripBijection
INVARIANT CoordCentre
INVARIANT StripIndexing
INVARIANT PaintsInside
INVARIANT Faithful
INVARIANT ModelCovers
INVARIANT Determined
INVARIANT RleAgrees
CHECK_DEADLOCK FALSE
