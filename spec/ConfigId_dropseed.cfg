CONSTANTS Full = FALSE
          Variant = "drop_seed"
SPECIFICATION DSpec
INVARIANT IdentityInv
CHECK_DEADLOCK FALSE
