CONSTANTS Full = FALSE
          Variant = "ok"
SPECIFICATION ESpec
INVARIANT HashFollowsInv
CHECK_DEADLOCK FALSE
