----------------------------- MODULE Trace_System -----------------------------
(* Use (B)+(C) for the composed system: TLC-emitted operation histories were executed against the real library
   (from_config with a real cache directory, filter_by, save, read); the observations are replayed through
   the ACTIONS of MazeSystem.
   record: [id, events = sequence of [op, c, fl (sequence of filter letters), i, f, p, how ("warm"|"cold"|"mismatch"|"-"),
                                       res, key (observed identity of the dataset handed out: <<base name, provenance letters>>),
                                       dig (per-maze digests), ref (reference digests of the model's denotation of this handle),
                                       v (view name; dig = per-maze digests of the view, ref = the same view of the model's denotation),
                                       j, d, k (collection operations), mkeys (observed member identities of a collection; dig = its flattened mazes)]]
   Layer P (C11): a request hands out exactly the dataset of the requested configuration.
   Layer M: cache warm/cold as the model says; filter / save / read results are what the model says. *)
EXTENDS MazeSystem, Json, IOUtils, SequencesExt
Log == ndJsonDeserialize(IOEnv.VERIF_LOG)
VARIABLES tid, l, bad
tvars == <<svars, tid, l, bad>>
T == Log[tid]
Ev == T.events[l]
Verdict(cs) == IF cs = {} THEN bad ELSE bad \cup {[id |-> T.id, c |-> cs]}
TInit == Init /\ tid = 1 /\ l = 1 /\ bad = {}
Act == CASE Ev.op = "request" -> Request(Ev.c, Ev.fl)
         [] Ev.op = "filter" -> Filter(Ev.i, Ev.f)
         [] Ev.op = "save" -> Save(Ev.i, Ev.p)
         [] Ev.op = "read" -> Read(Ev.p)
         [] Ev.op = "collect" -> Collect(Ev.i, Ev.j)
         [] Ev.op = "collgen" -> CollGenerate(Ev.c, Ev.d)
         [] Ev.op = "collrt" -> CollRoundTrip(Ev.k)
         [] Ev.op = "view" -> View(Ev.i, Ev.v)
NewHandle == Len(hs') = Len(hs) + 1
ModelHow == hist'[Len(hist')].how
Clauses ==
  IF Ev.op = "request" THEN
       (IF Ev.res = "ok" /\ Ev.dig # Ev.ref THEN {"request_handed_out_other_data_than_the_requested_configuration"} ELSE {})
    \cup (IF Ev.res = "ok" /\ Ev.key # <<Ev.c, Ev.fl>> THEN {"request_handed_out_a_dataset_of_another_configuration"} ELSE {})
    \cup (IF Ev.res # "ok" /\ ModelHow # "mismatch" THEN {"request_raised"} ELSE {})
    \cup (IF Ev.res = "ok" /\ Ev.how # ModelHow THEN {"M:cache_hit_or_miss_differs_from_model"} ELSE {})
  ELSE IF Ev.op \in {"collect", "collgen", "collrt"} THEN
       (IF Ev.res # "ok" THEN {"M:collection_operation_raised"} ELSE {})
    \cup (IF Ev.res = "ok" /\ (Ev.mkeys # [m \in 1..Len(colls'[Len(colls')]) |-> colls'[Len(colls')][m].cfg] \/ Ev.dig # Ev.ref)
            THEN {"M:collection_is_not_the_models_collection"} ELSE {})
  ELSE IF Ev.op = "view" THEN
       (IF Ev.res # "ok" THEN {"M:operation_raised"} ELSE {})
    \cup (IF Ev.res = "ok" /\ Ev.dig # Ev.ref THEN {"M:view_differs_from_the_view_of_the_models_dataset"} ELSE {})
  ELSE (IF Ev.res # "ok" THEN {"M:operation_raised"} ELSE {})
    \cup (IF Ev.res = "ok" /\ NewHandle /\ (Ev.key # hs'[Len(hs')].cfg \/ Ev.dig # Ev.ref) THEN {"M:result_is_not_the_models_dataset"} ELSE {})
TStep == /\ tid <= Len(Log) /\ l <= Len(T.events) /\ ENABLED Act
         /\ Act /\ bad' = Verdict(Clauses) /\ l' = l + 1 /\ UNCHANGED tid
Reset == /\ hs' = <<>> /\ colls' = <<>> /\ cache' = [k \in Keys |-> Absent] /\ files' = [p \in Paths |-> Absent] /\ ops' = 0 /\ hist' = <<>>
TSkip == /\ tid <= Len(Log) /\ l <= Len(T.events) /\ ~ENABLED Act
         /\ bad' = Verdict({"M:operation_not_enabled_in_model"}) /\ tid' = tid + 1 /\ l' = 1 /\ Reset
TNextTrace == /\ tid <= Len(Log) /\ l = Len(T.events) + 1 /\ tid' = tid + 1 /\ l' = 1 /\ UNCHANGED bad /\ Reset
TNext == TStep \/ TSkip \/ TNextTrace
TSpec == TInit /\ [][TNext]_tvars
Done == (tid = Len(Log) + 1) =>
          ndJsonSerialize(IOEnv.VERIF_OUT, <<[id |-> -1, c |-> {ToString(Len(Log))}]>> \o SetToSeq(bad))
===============================================================================
