\* C07 non-vacuity: without the premise the round trip FAILS (TLC must report RoundTripNoPremise violated)
SPECIFICATION Spec
CONSTANTS
  Shapes <- ShapesL1
  CoordKinds <- BothCoordKinds
  MaxSol = 1
  TreesOnly = FALSE
  WhichKinds <- Kinds
  BrokenLimit = FALSE
INVARIANTS RoundTripNoPremise
CHECK_DEADLOCK FALSE
