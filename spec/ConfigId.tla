------------------------------ MODULE ConfigId ------------------------------
(* C18 -- a dataset configuration, its serialized form, its identity (hash) and its cache file name,
   as a fixed, independent statement.

   VALUES.  Python values are *typed trees*  [t |-> <python type name>, v |-> <payload>] :
       int -> integer      bool -> BOOLEAN     str -> string     float -> its repr as a string
       NoneType -> 0       list / tuple -> sequence of trees     dict -> sequence of <<key, tree>>
   TreeEq is Python's == on such values (type-exact; dicts compared without regard to key order).
   All comparisons of trees go through TreeEq / texts, never through TLC's built-in equality on
   differently shaped values (which is an error, not FALSE).

   CONFIG.  c = [name, grid_n, n_mazes, seed : scalars,  ctor : name of the generator function,
                 ck = maze_ctor_kwargs, ek = endpoint_kwargs, af = applied_filters : trees].
   Scope (WF): ck is a dict of JSON-native values (no tuples); every ek value is a bool, None or a
   list of (int, int) TUPLES; af is a list of dicts {name: str, args: TUPLE of scalars, kwargs: dict
   of scalars}.

   Ser   : config -> serialized tree.  JSON has no tuples: every tuple becomes a list (Lower).
   Load  : serialized tree -> config.  Restores what Lower destroyed, exactly where the scope says
           tuples live: the coordinate lists of endpoint_kwargs and the args of every filter.
   HashKey : the identity.  The real hash (SHA-256 of the JSON text) is not modelled; it is
           abstracted as an INJECTIVE function of the serialized content, namely the JSON text of
           the serialized tree itself.  Identity therefore separates two configs iff their
           serialized content differs.
   Fname : the cache file name, assembled from the pieces
               <name>-g<grid_n>-n<short(n_mazes)>-a_<generator without "gen_">-h<hash mod 10^5>
           hash mod 10^5 is printed as a number (NO zero padding); short(n) is the decimal numeral
           below 1000 and a K/M/B numeral above (one decimal below ten units, whole units from ten
           units on; rounding to nearest, at an exact tie either neighbour is accepted).

   Design level (ConfigId_small.cfg; ConfigId_full.cfg = larger tree domains): a two-variable machine picks a config i1 from a small cross
   product of field values and then a config i2 differing from it in exactly ONE field (action Vary).
   Invariants: the domain is in scope (WFInv), the serialized tree is tuple-free (LoweredInv),
   Load(Ser(c)) = c (RoundTripInv), exactly the varied field differs (OneFieldInv) and the identities
   differ (IdentityInv).  Broken variants (CONSTANT Variant) that TLC must reject:
       "drop_seed"  -- the seed is left out of the serialized content   -> IdentityInv fails
       "no_tuples"  -- Load does not restore tuples                     -> RoundTripInv fails

   History machine (ConfigId_edit.cfg): a config OBJECT is mutable.  ESpec runs the histories
       build -> Observe (hash) -> Edit(field, value) in place -> Observe -> Edit -> Observe
   over every field and value; invariant HashFollowsInv: whenever a hash has just been observed it is
   HashKey(current content) -- the identity follows the content, not the object's past.  Broken variant
       "memo_hash"  -- the first observed hash is cached on the object, never invalidated
                                                                       -> HashFollowsInv fails *)
EXTENDS Naturals, Integers, Sequences, FiniteSets, TLC

CONSTANTS Variant,        \* "ok" | "drop_seed" | "no_tuples" | "memo_hash"
          Full            \* TRUE = the whole design-level cross product, FALSE = a prefix of the three tree domains
VARIABLES i1, i2,         \* index records into the design-level domains below
          hs              \* history machine: [n, seen, memo] = steps taken, last observed hash ("" = none), cached hash

\* ------------------------------------------------------------------ typed trees
Mk(t, v) == [t |-> t, v |-> v]
I(n) == Mk("int", n)
B(b) == Mk("bool", b)
S(s) == Mk("str", s)
F(s) == Mk("float", s)
None == Mk("NoneType", 0)
L(q) == Mk("list", q)
T(q) == Mk("tuple", q)
D(q) == Mk("dict", q)
SeqTypes == {"list", "tuple"}
ScalarTypes == {"int", "bool", "str", "float", "NoneType"}

RECURSIVE TreeEq(_, _)
TreeEq(a, b) ==
  /\ a.t = b.t
  /\ CASE a.t \in SeqTypes -> /\ Len(a.v) = Len(b.v)
                              /\ \A k \in 1..Len(a.v) : TreeEq(a.v[k], b.v[k])
       [] a.t = "dict"     -> /\ Len(a.v) = Len(b.v)
                              /\ \A k \in 1..Len(a.v) : \E j \in 1..Len(b.v) :
                                    a.v[k][1] = b.v[j][1] /\ TreeEq(a.v[k][2], b.v[j][2])
       [] OTHER            -> a.v = b.v

HasKey(d, key) == \E k \in 1..Len(d.v) : d.v[k][1] = key
Get(d, key) == d.v[CHOOSE k \in 1..Len(d.v) : d.v[k][1] = key][2]

\* JSON has no tuples
RECURSIVE Lower(_)
Lower(x) == CASE x.t \in SeqTypes -> L([k \in 1..Len(x.v) |-> Lower(x.v[k])])
              [] x.t = "dict"     -> D([k \in 1..Len(x.v) |-> <<x.v[k][1], Lower(x.v[k][2])>>])
              [] OTHER            -> x

RECURSIVE NoTuples(_)
NoTuples(x) == CASE x.t = "tuple" -> FALSE
                 [] x.t = "list"  -> \A k \in 1..Len(x.v) : NoTuples(x.v[k])
                 [] x.t = "dict"  -> \A k \in 1..Len(x.v) : NoTuples(x.v[k][2])
                 [] OTHER         -> TRUE

RECURSIVE JoinComma(_)
JoinComma(q) == IF Len(q) = 0 THEN "" ELSE IF Len(q) = 1 THEN q[1]
                ELSE q[1] \o ", " \o JoinComma(Tail(q))
Quote(s) == "\"" \o s \o "\""

\* the JSON text of a tree (tuples and lists both print as arrays)
RECURSIVE JText(_)
JText(x) == CASE x.t = "int"      -> ToString(x.v)
              [] x.t = "bool"     -> IF x.v THEN "true" ELSE "false"
              [] x.t = "NoneType" -> "null"
              [] x.t = "str"      -> Quote(x.v)
              [] x.t = "float"    -> x.v
              [] x.t \in SeqTypes -> "[" \o JoinComma([k \in 1..Len(x.v) |-> JText(x.v[k])]) \o "]"
              [] x.t = "dict"     -> "{" \o JoinComma([k \in 1..Len(x.v) |-> Quote(x.v[k][1]) \o ": " \o JText(x.v[k][2])]) \o "}"
              [] OTHER            -> "<" \o x.t \o ">"

\* ------------------------------------------------------------------ configs
Fields == {"name", "grid_n", "n_mazes", "seed", "ctor", "ck", "ek", "af"}
TreeFields == {"ck", "ek", "af"}
FieldEq(f, a, b) == IF f \in TreeFields THEN TreeEq(a[f], b[f]) ELSE a[f] = b[f]
DiffFields(a, b) == {f \in Fields : ~FieldEq(f, a, b)}
CfgEq(a, b) == DiffFields(a, b) = {}

IsScalar(x) == x.t \in ScalarTypes
IsCoord(x) == x.t = "tuple" /\ Len(x.v) = 2 /\ \A k \in 1..2 : x.v[k].t = "int"
IsCoordList(x) == x.t = "list" /\ \A k \in 1..Len(x.v) : IsCoord(x.v[k])
IsScalarDict(x) == x.t = "dict" /\ \A k \in 1..Len(x.v) : IsScalar(x.v[k][2])
IsFilter(x) == /\ x.t = "dict" /\ Len(x.v) = 3
               /\ HasKey(x, "name") /\ HasKey(x, "args") /\ HasKey(x, "kwargs")
               /\ Get(x, "name").t = "str"
               /\ Get(x, "args").t = "tuple" /\ \A k \in 1..Len(Get(x, "args").v) : IsScalar(Get(x, "args").v[k])
               /\ IsScalarDict(Get(x, "kwargs"))
WF(c) == /\ c.ck.t = "dict" /\ NoTuples(c.ck)
         /\ c.ek.t = "dict" /\ \A k \in 1..Len(c.ek.v) :
                LET v == c.ek.v[k][2] IN v.t \in {"bool", "NoneType"} \/ IsCoordList(v)
         /\ c.af.t = "list" /\ \A k \in 1..Len(c.af.v) : IsFilter(c.af.v[k])

\* ------------------------------------------------------------------ Ser / Load / identity
SerTree(c) ==
  D(<< <<"name", S(c.name)>>,
       <<"seed", I(IF Variant = "drop_seed" THEN 0 ELSE c.seed)>>,
       <<"applied_filters", Lower(c.af)>>,
       <<"grid_n", I(c.grid_n)>>,
       <<"n_mazes", I(c.n_mazes)>>,
       <<"maze_ctor", D(<< <<"__name__", S(c.ctor)>> >>)>>,   \* module, doc and source are functions of the name
       <<"maze_ctor_kwargs", Lower(c.ck)>>,
       <<"endpoint_kwargs", Lower(c.ek)>> >>)

RestoreCoordList(v) ==
  IF v.t \in {"bool", "NoneType"} \/ Variant = "no_tuples" THEN v
  ELSE L([k \in 1..Len(v.v) |-> T(v.v[k].v)])
LoadEK(d) == D([k \in 1..Len(d.v) |-> <<d.v[k][1], RestoreCoordList(d.v[k][2])>>])
LoadFilter(f) ==
  D(<< <<"name", Get(f, "name")>>,
       <<"args", IF Variant = "no_tuples" THEN Get(f, "args") ELSE T(Get(f, "args").v)>>,
       <<"kwargs", Get(f, "kwargs")>> >>)
LoadAF(l) == L([k \in 1..Len(l.v) |-> LoadFilter(l.v[k])])
Load(s) ==
  [name |-> Get(s, "name").v, grid_n |-> Get(s, "grid_n").v, n_mazes |-> Get(s, "n_mazes").v,
   seed |-> Get(s, "seed").v, ctor |-> Get(Get(s, "maze_ctor"), "__name__").v,
   ck |-> Get(s, "maze_ctor_kwargs"), ek |-> LoadEK(Get(s, "endpoint_kwargs")),
   af |-> LoadAF(Get(s, "applied_filters"))]

HashKey(c) == JText(SerTree(c))     \* injective abstraction of "hash of the serialized content"

\* ------------------------------------------------------------------ file name
\* every registered generator and the piece of the file name it contributes (its name without "gen_")
Generators == {"gen_dfs", "gen_wilson", "gen_percolation", "gen_dfs_percolation", "gen_prim"}
GenPiece(g) == CASE g = "gen_dfs" -> "dfs" [] g = "gen_wilson" -> "wilson" [] g = "gen_percolation" -> "percolation"
                 [] g = "gen_dfs_percolation" -> "dfs_percolation" [] g = "gen_prim" -> "prim"
ASSUME GenPieceStripsPrefix == \A g \in Generators : "gen_" \o GenPiece(g) = g

DigitVal(d) == CASE d = "0" -> 0 [] d = "1" -> 1 [] d = "2" -> 2 [] d = "3" -> 3 [] d = "4" -> 4
                 [] d = "5" -> 5 [] d = "6" -> 6 [] d = "7" -> 7 [] d = "8" -> 8 [] d = "9" -> 9
RECURSIVE NumOf(_)
NumOf(ds) == IF Len(ds) = 0 THEN 0 ELSE 10 * NumOf(SubSeq(ds, 1, Len(ds) - 1)) + DigitVal(ds[Len(ds)])
\* hash mod 10^5 from the decimal digits of the hash
Last5(hd) == LET n == Len(hd) IN NumOf(SubSeq(hd, IF n > 5 THEN n - 4 ELSE 1, n))

\* round q = num/den to the nearest integer; an exact tie admits both neighbours
RoundSet(num, den) == LET q == num \div den  r == num % den IN
                      IF 2 * r < den THEN {q} ELSE IF 2 * r > den THEN {q + 1} ELSE {q, q + 1}
UnitOf(n) == IF n >= 1000000000 THEN 1000000000 ELSE IF n >= 1000000 THEN 1000000 ELSE 1000
SuffixOf(u) == IF u = 1000000000 THEN "B" ELSE IF u = 1000000 THEN "M" ELSE "K"
Shorten(n) ==
  IF n < 1000 THEN {ToString(n)}
  ELSE LET u == UnitOf(n) IN
       IF n \div u < 10
       THEN {ToString(t \div 10) \o "." \o ToString(t % 10) \o SuffixOf(u) : t \in RoundSet(n, u \div 10)}
       ELSE {ToString(w) \o SuffixOf(u) : w \in RoundSet(n, u)}
\* h5 = hash mod 10^5 as a number
Fnames(name, grid, n, gen, h5) ==
  {name \o "-g" \o ToString(grid) \o "-n" \o s \o "-a_" \o GenPiece(gen) \o "-h" \o ToString(h5) : s \in Shorten(n)}

\* file name of a COLLECTION of configs (no single grid size / generator): name, total maze count, hash
CollFnames(name, total, h5) ==
  {"collected-" \o name \o "-n" \o s \o "-h" \o ToString(h5) : s \in Shorten(total)}

ASSUME ShortenExamples ==
  /\ Shorten(0) = {"0"} /\ Shorten(999) = {"999"} /\ Shorten(1001) = {"1.0K"} /\ Shorten(1234) = {"1.2K"}
  /\ Shorten(1250) = {"1.2K", "1.3K"} /\ Shorten(9999) = {"10.0K"} /\ Shorten(10001) = {"10K"}
  /\ Shorten(12345) = {"12K"} /\ Shorten(999499) = {"999K"} /\ Shorten(1500000) = {"1.5M"}
  /\ Shorten(25000000) = {"25M"} /\ Shorten(2000000001) = {"2.0B"}
  /\ \A n \in 0..3000 : Cardinality(Shorten(n)) \in {1, 2}
ASSUME FnameExamples ==
  /\ Last5(<<"1","0","4","1","7","2","8","8">>) = 17288
  /\ Last5(<<"9","9","0","0","1","2","3">>) = 123 /\ Last5(<<"7">>) = 7 /\ Last5(<<"5","0","0","0","0","0">>) = 0
  /\ Fnames("t", 3, 1500, "gen_dfs_percolation", Last5(<<"6","1","7","2","8","8">>)) = {"t-g3-n1.5K-a_dfs_percolation-h17288"}
  /\ Fnames("demo", 10, 5, "gen_dfs", Last5(<<"4","2","0","0","1","2","3">>)) = {"demo-g10-n5-a_dfs-h123"}   \* not h00123
  /\ CollFnames("coll", 1505, 39811) = {"collected-coll-n1.5K-h39811"}

\* ------------------------------------------------------------------ design-level domains (sequences: no set of trees is ever built)
DNames == <<"a", "b">>
DGrids == <<2, 3>>
DCounts == <<5, 1500>>
DSeeds == <<0, 42>>
DGens == <<"gen_dfs", "gen_percolation", "gen_wilson">>
DCK == << D(<<>>),
          D(<< <<"p", F("0.3")>> >>),
          D(<< <<"accessible_cells", I(5)>>, <<"do_forks", B(FALSE)>> >>),
          D(<< <<"accessible_cells", F("5.0")>>, <<"do_forks", B(FALSE)>> >>),
          D(<< <<"start_coord", L(<<I(0), I(1)>>)>>, <<"max_tree_depth", None>> >>),
          D(<< <<"accessible_cells", I(0)>>, <<"max_tree_depth", F("0.0")>>, <<"do_forks", B(FALSE)>> >>) >>   \* falsy values
C(a, b) == T(<<I(a), I(b)>>)
DEK == << D(<<>>),
          D(<< <<"deadend_start", B(TRUE)>> >>),
          D(<< <<"allowed_start", None>> >>),
          D(<< <<"allowed_start", L(<<C(0, 0), C(1, 2)>>)>>, <<"deadend_end", B(TRUE)>> >>),
          D(<< <<"allowed_start", L(<<C(1, 2), C(0, 0)>>)>>, <<"deadend_end", B(TRUE)>> >>),
          D(<< <<"deadend_start", B(FALSE)>> >>),
          D(<< <<"allowed_start", L(<<>>)>> >>),
          D(<< <<"allowed_end", L(<<C(0, 0), C(1, 2)>>)>>, <<"deadend_end", B(TRUE)>> >>),
          D(<< <<"allowed_start", L(<<C(0, 0), C(2, 1)>>)>>, <<"deadend_end", B(TRUE)>> >>) >>
Filter(nm, args, kw) == D(<< <<"name", S(nm)>>, <<"args", T(args)>>, <<"kwargs", D(kw)>> >>)
DAF == << L(<<>>),
          L(<<Filter("path_length", <<I(3)>>, <<>>)>>),
          L(<<Filter("path_length", <<I(4)>>, <<>>)>>),
          L(<<Filter("path_length", <<>>, << <<"min_length", I(3)>> >>)>>),
          L(<<Filter("path_length", <<I(3)>>, <<>>), Filter("cut_percentile_shortest", <<F("10.0")>>, <<>>)>>),
          L(<<Filter("cut_percentile_shortest", <<F("10.0")>>, <<>>), Filter("path_length", <<I(3)>>, <<>>)>>),
          L(<<Filter("path_length", <<I(0)>>, << <<"min_length", None>> >>)>>) >>                                  \* falsy values
Cut(q, n) == IF Full THEN q ELSE SubSeq(q, 1, n)
Dom(f) == CASE f = "name" -> DNames [] f = "grid_n" -> DGrids [] f = "n_mazes" -> DCounts [] f = "seed" -> DSeeds
            [] f = "ctor" -> DGens [] f = "ck" -> Cut(DCK, 3) [] f = "ek" -> Cut(DEK, 5) [] f = "af" -> Cut(DAF, 4)
Cfg(i) == [f \in Fields |-> Dom(f)[i[f]]]
Idx == [name : 1..Len(DNames), grid_n : 1..Len(DGrids), n_mazes : 1..Len(DCounts), seed : 1..Len(DSeeds),
        ctor : 1..Len(DGens), ck : 1..Len(Dom("ck")), ek : 1..Len(Dom("ek")), af : 1..Len(Dom("af"))]

\* the values of every domain are pairwise distinct (so that "differs in field f" means what it says)
ASSUME DomainsDistinct ==
  \A f \in Fields : \A a \in 1..Len(Dom(f)), b \in 1..Len(Dom(f)) :
     a # b => ~(IF f \in TreeFields THEN TreeEq(Dom(f)[a], Dom(f)[b]) ELSE Dom(f)[a] = Dom(f)[b])

\* ------------------------------------------------------------------ design-level machine
DInit == i1 \in Idx /\ i2 = i1 /\ hs = 0
Vary == /\ i2 = i1 /\ UNCHANGED hs
        /\ \E f \in Fields : \E k \in 1..Len(Dom(f)) : k # i1[f] /\ i2' = [i1 EXCEPT ![f] = k]
        /\ i1' = i1
DSpec == DInit /\ [][Vary]_<<i1, i2, hs>>

WFInv        == WF(Cfg(i2))
LoweredInv   == NoTuples(SerTree(Cfg(i2)))
RoundTripInv == CfgEq(Load(SerTree(Cfg(i2))), Cfg(i2))
OneFieldInv  == DiffFields(Cfg(i1), Cfg(i2)) = {f \in Fields : i1[f] # i2[f]} /\ Cardinality({f \in Fields : i1[f] # i2[f]}) <= 1
IdentityInv  == (i1 # i2) => HashKey(Cfg(i1)) # HashKey(Cfg(i2))
\* identity depends on the serialized content only
StableInv    == HashKey(Load(SerTree(Cfg(i2)))) = HashKey(Cfg(i2))

\* ------------------------------------------------------------------ history machine: in-place edits between hash observations
\* i1 = the CURRENT content of one config object; i2 is not used (kept equal to the initial content)
EIdx == {i \in Idx : i.name = 1 /\ i.grid_n = 1 /\ i.n_mazes = 1 /\ i.seed = 1}
MaxSteps == 5
EInit == i1 \in EIdx /\ i2 = i1 /\ hs = [n |-> 0, seen |-> "", memo |-> ""]
Observe ==
  /\ hs.n < MaxSteps /\ hs.seen = ""
  /\ LET now == HashKey(Cfg(i1))
         got == IF Variant = "memo_hash" /\ hs.memo # "" THEN hs.memo ELSE now
     IN hs' = [n |-> hs.n + 1, seen |-> got, memo |-> IF Variant = "memo_hash" THEN got ELSE ""]
  /\ UNCHANGED <<i1, i2>>
Edit ==
  /\ hs.n < MaxSteps /\ hs.seen # ""
  /\ \E f \in Fields : \E k \in 1..Len(Dom(f)) : k # i1[f] /\ i1' = [i1 EXCEPT ![f] = k]
  /\ hs' = [hs EXCEPT !.n = hs.n + 1, !.seen = ""]
  /\ UNCHANGED i2
ESpec == EInit /\ [][Observe \/ Edit]_<<i1, i2, hs>>
HashFollowsInv == hs.seen # "" => hs.seen = HashKey(Cfg(i1))
=============================================================================
