CONSTANTS DShapes <- NoShapes
CONSTANTS DPathShapes <- ShapesPath13
CONSTANTS DCoords <- CoordsUT
CONSTANTS MaxShuffle = 3
CONSTANTS DBug = "path_stream_cut"
SPECIFICATION Spec
INVARIANT SinglesDetermineSolution
CHECK_DEADLOCK FALSE
