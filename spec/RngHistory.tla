----------------------------- MODULE RngHistory -----------------------------
(* C04: the three process-global RNG streams (python `random`, numpy global, torch) under every history of
   user draws, user reseeds, construction of other configurations, and generate / from_config calls.
   A stream is <<seed, draws>> (draws saturate at K); <<0, 0>> is the state after import.
     NewConfig(s)   GPTDatasetConfig.__post_init__ -> set_reproducibility(s): all three := <<s, 0>>
     Generate(c)    cfg_cpy = load(serialize(cfg)) => NewConfig(seed(c)); the generator consumes numpy (always)
                    and python `random` (iff UsesPy[c]); finally np.random.seed(seed(c))
     FromConfig(c)  Generate(c) then each configured filter deep-copies the dataset (load of the config again
                    => NewConfig(seed(c)))  -- NFilters[c] of them
   `log` records what the produced mazes are a function of: the config and the python / numpy stream states
   at the moment generation starts consuming.  ReseedOnCopy = FALSE is the deliberately broken design
   (copy.deepcopy-like copy that does not re-run __post_init__); TLC must reject it. *)
EXTENDS Naturals, Sequences, FiniteSets, TLC
CONSTANTS Seeds, Cfgs, SeedOf, UsesPy, NFilters, K, MaxSteps, ReseedOnCopy
Streams == {"py", "np", "torch"}
\* @type: (Int) => <<Int, Int>>;
Fresh(s) == <<s, 0>>
\* @type: (<<Int, Int>>) => <<Int, Int>>;
Adv(x) == <<x[1], IF x[2] < K THEN x[2] + 1 ELSE K>>
VARIABLES rng, log, steps, hist
rvars == <<rng, log, steps, hist>>
Init == rng = [r \in Streams |-> Fresh(0)] /\ log = <<>> /\ steps = 0 /\ hist = <<>>
Tick == steps < MaxSteps /\ steps' = steps + 1
\* @type: (Int) => (Str -> <<Int, Int>>);
SetRepro(s) == [r \in Streams |-> Fresh(s)]
\* @type: (Str, Str, Int, Str) => Bool;
H(a, r, s, c) == hist' = Append(hist, [a |-> a, r |-> r, s |-> s, c |-> c])
Draw(r) == Tick /\ rng' = [rng EXCEPT ![r] = Adv(@)] /\ UNCHANGED log /\ H("Draw", r, 0, "-")
UserSeed(r, s) == Tick /\ rng' = [rng EXCEPT ![r] = Fresh(s)] /\ UNCHANGED log /\ H("UserSeed", r, s, "-")
NewConfig(s) == Tick /\ rng' = SetRepro(s) /\ UNCHANGED log /\ H("NewConfig", "-", s, "-")
\* @type: (Str, Str -> <<Int, Int>>) => (Str -> <<Int, Int>>);
AfterGen(c, r0) == [r0 EXCEPT !["py"] = IF UsesPy[c] THEN Adv(@) ELSE @, !["np"] = Fresh(SeedOf[c])]
GenCore(c) == LET r0 == IF ReseedOnCopy THEN SetRepro(SeedOf[c]) ELSE rng IN
              /\ log' = Append(log, <<c, r0["py"], r0["np"]>>)
              /\ rng' = AfterGen(c, r0)
Generate(c) == Tick /\ GenCore(c) /\ H("Generate", "-", 0, c)
FromConfig(c) == /\ Tick
                 /\ LET r0 == IF ReseedOnCopy THEN SetRepro(SeedOf[c]) ELSE rng
                        r1 == AfterGen(c, r0) IN
                    /\ log' = Append(log, <<c, r0["py"], r0["np"]>>)
                    /\ rng' = (IF NFilters[c] > 0 /\ ReseedOnCopy THEN SetRepro(SeedOf[c]) ELSE r1)
                 /\ H("FromConfig", "-", 0, c)
DrawAny == \E r \in Streams : Draw(r)
SeedAny == \E r \in Streams, s \in Seeds : UserSeed(r, s)
NewAny == \E s \in Seeds : NewConfig(s)
GenAny == \E c \in Cfgs : Generate(c)
FromAny == \E c \in Cfgs : FromConfig(c)
Next == DrawAny \/ SeedAny \/ NewAny \/ GenAny \/ FromAny
Spec == Init /\ [][Next]_rvars
\* C04: what a dataset is generated from is the same for every history
Deterministic == \A i, j \in DOMAIN log : log[i][1] = log[j][1] => log[i] = log[j]
PureFunctionOfCfg == \A i \in DOMAIN log : log[i][2] = Fresh(SeedOf[log[i][1]]) /\ log[i][3] = Fresh(SeedOf[log[i][1]])
\* named constants for the cfg files
CfgsAB == {"a", "b"}
Seeds12 == {1, 2}
SeedMap == [c \in CfgsAB |-> IF c = "a" THEN 1 ELSE 2]
PyMap == [c \in CfgsAB |-> c = "a"]
FilterMap == [c \in CfgsAB |-> IF c = "a" THEN 0 ELSE 2]
\* the exhaustive check does not need the history variable
NoHist == <<rng, log, steps>>
==============================================================================
