------------------------------- MODULE Vocab -------------------------------
(* C14 -- the token vocabularies as a fixed, independent statement.

   (1) The published layout of the 4096-token vocabulary of MazeTokenizerModular, transcribed from
       the documentation of maze_dataset/constants.py (_SPECIAL_TOKENS_BASE, then the blocks of
       _VOCAB_FIELDS in the documented order) as a concatenation of blocks.  SpecVocab[k+1] is the
       token whose id is k.  Nothing here is computed from the code: a reordering, an off-by-one in
       a range, or a changed sort key in the code changes the dump, not this text.
   (2) The corner-first order of the n x n coordinates as a RELATION (CFLess) on cells: by shell
       (= the larger coordinate), inside a shell by the key "the cell itself when its row is even,
       the transposed cell when its row is odd" compared lexicographically; the two cells of a
       shell that share a key are taken in row-major order.  (This is what the docstring example
       of corner_first_ndindex(3) shows: ... (0,2) (2,0) (1,2) (2,1) (2,2).)
   (3) The legacy vocabularies: the 11 special tokens followed by row-major / corner-first
       coordinate tokens, or by "(" "," ")" and the numbers 0..n-1.

   Design level (Vocab_small.cfg): a tiny state machine steps n = 1..Bound; TLC checks as
   invariants that CornerFirst(n) is a strictly CFLess-sorted permutation of the n x n cells, lists
   the shells 0,1,..,n-1 as consecutive blocks, has CornerFirst(k) as a prefix for EVERY k < n, that
   the legacy vocabularies are duplicate-free (and the corner-first one prefix-compatible), that
   CFLess is a strict total order (all pairs / triples of a small grid); and as ASSUMEs that
   SpecVocab has 4096 pairwise distinct entries at the published block offsets.
   UseShell = FALSE is a deliberately broken order (plain row-major): TLC must reject PrefixInv. *)
EXTENDS Naturals, Integers, Sequences, FiniteSets, TLC, SequencesExt

CONSTANTS Bound,       \* largest grid size considered (50 = the size of the published vocabulary)
          UseShell     \* TRUE = the real order; FALSE = broken variant without the shell component
VARIABLE n

\* ------------------------------------------------------------------ blocks of the published layout
Letters == <<"A","B","C","D","E","F","G","H","I","J","K","L","M","N","O","P","Q","R","S","T","U","V","W","X","Y","Z">>

Specials == <<"<ADJLIST_START>", "<ADJLIST_END>", "<TARGET_START>", "<TARGET_END>",
              "<ORIGIN_START>", "<ORIGIN_END>", "<PATH_START>", "<PATH_END>",
              "<-->", ";", "<PADDING>">>                                         \* ids 0..10
Delims   == <<"(", ",", ")", "=", "||", ":", "THEN", "-", "<UNK>">>              \* ids 11..19
Targets  == [k \in 1..26 |-> "TARGET_" \o Letters[k]]                            \* ids 20..45
            \o <<"TARGET_NORTH", "TARGET_SOUTH", "TARGET_EAST", "TARGET_WEST",
                 "TARGET_NORTHEAST", "TARGET_NORTHWEST", "TARGET_SOUTHEAST",
                 "TARGET_SOUTHWEST", "TARGET_CENTER">>                            \* ids 46..54
PathWords == <<"NORTH", "SOUTH", "EAST", "WEST", "FORWARD", "BACKWARD", "LEFT", "RIGHT", "STAY">>  \* 55..63
PosInts  == [k \in 1..256 |-> "+" \o ToString(k - 1)]                            \* +0 .. +255   ids 64..319
CTTInts  == [k \in 1..128 |-> ToString(k - 1)]                                   \* 0 .. 127     ids 320..447
NegInts  == [k \in 1..256 |-> "-" \o ToString(257 - k)]                          \* -256 .. -1   ids 448..703
Misc     == <<"STEP", "ADJ_GROUP", "&", "<XX>">>                                 \* ids 704..707
Reserves == [k \in 1..888 |-> "<RESERVE_" \o ToString(707 + k) \o ">"]           \* <RESERVE_708> .. <RESERVE_1595>
GridMax  == 50                                                                   \* 50 x 50 coordinates, ids 1596..4095

\* ------------------------------------------------------------------ corner-first order (a relation)
MaxC(a, b) == IF a > b THEN a ELSE b
Shell(x) == MaxC(x[1], x[2])
LexLess(a, b) == a[1] < b[1] \/ (a[1] = b[1] /\ a[2] < b[2])
CFKey(x) == IF x[1] % 2 = 0 THEN x ELSE <<x[2], x[1]>>
InShellLess(x, y) == LexLess(CFKey(x), CFKey(y)) \/ (CFKey(x) = CFKey(y) /\ LexLess(x, y))
CFLess(x, y) ==
  IF UseShell THEN Shell(x) < Shell(y) \/ (Shell(x) = Shell(y) /\ InShellLess(x, y))
  ELSE LexLess(x, y)

Grid(k) == (0..k-1) \X (0..k-1)
CornerFirstSort(k) == SetToSortSeq(Grid(k), CFLess)
\* evaluated once (TLCEval forces the table), so that the oracle pays 50 sorts per JVM, not per record
CFTable == TLCEval([k \in 1..Bound |-> CornerFirstSort(k)])
CornerFirst(k) == IF k \in 1..Bound THEN CFTable[k] ELSE CornerFirstSort(k)
RowMajor(k) == [p \in 1..(k * k) |-> <<(p - 1) \div k, (p - 1) % k>>]

UT(c) == "(" \o ToString(c[1]) \o "," \o ToString(c[2]) \o ")"
UTs(cells) == [p \in 1..Len(cells) |-> UT(cells[p])]
Coords == UTs(CornerFirst(GridMax))

SpecVocab == Specials \o Delims \o Targets \o PathWords \o PosInts \o CTTInts \o NegInts \o Misc \o Reserves \o Coords
VocabSize == 4096

\* ------------------------------------------------------------------ legacy vocabularies
Modes == {"AOTP_UT_rasterized", "AOTP_UT_uniform", "AOTP_CTT_indexed"}
LegacyVocab(mode, k) ==
  CASE mode = "AOTP_UT_rasterized" -> Specials \o UTs(RowMajor(k))
    [] mode = "AOTP_UT_uniform"    -> Specials \o UTs(CornerFirst(k))
    [] mode = "AOTP_CTT_indexed"   -> Specials \o <<"(", ",", ")">> \o [j \in 1..k |-> ToString(j - 1)]

\* ------------------------------------------------------------------ generic sequence predicates
SeqRange(q) == {q[p] : p \in 1..Len(q)}
Distinct(q) == Cardinality(SeqRange(q)) = Len(q)
PrefixOf(a, b) == Len(a) <= Len(b) /\ SubSeq(b, 1, Len(a)) = a
StrictlySorted(q) == \A p \in 1..(Len(q) - 1) : CFLess(q[p], q[p + 1])

\* ------------------------------------------------------------------ design-level facts (constant)
ASSUME VocabLen      == Len(SpecVocab) = VocabSize
ASSUME VocabDistinct == Distinct(SpecVocab)
\* a reserve token names its own id; the coordinates start right after the reserves
ASSUME ReserveSelfIndex == \A k \in 708..1595 : SpecVocab[k + 1] = "<RESERVE_" \o ToString(k) \o ">"
\* ids that appear in the published demo notebook / README tables
ASSUME PublishedIds == UseShell =>
  /\ SpecVocab[0 + 1] = "<ADJLIST_START>" /\ SpecVocab[10 + 1] = "<PADDING>"
  /\ SpecVocab[15 + 1] = "||" /\ SpecVocab[16 + 1] = ":" /\ SpecVocab[17 + 1] = "THEN"
  /\ SpecVocab[19 + 1] = "<UNK>" /\ SpecVocab[64 + 1] = "+0" /\ SpecVocab[320 + 1] = "0"
  /\ SpecVocab[448 + 1] = "-256" /\ SpecVocab[703 + 1] = "-1" /\ SpecVocab[704 + 1] = "STEP"
  /\ SpecVocab[1596 + 1] = "(0,0)" /\ SpecVocab[1598 + 1] = "(1,0)" /\ SpecVocab[4095 + 1] = "(49,49)"
ASSUME DocstringExample ==
  Bound >= 3 /\ UseShell =>
    /\ CornerFirst(1) = << <<0,0>> >>
    /\ CornerFirst(2) = << <<0,0>>, <<0,1>>, <<1,0>>, <<1,1>> >>
    /\ CornerFirst(3) = << <<0,0>>, <<0,1>>, <<1,0>>, <<1,1>>, <<0,2>>, <<2,0>>, <<1,2>>, <<2,1>>, <<2,2>> >>

\* ------------------------------------------------------------------ design-level state machine
VInit == n = 1
VNext == n < Bound /\ n' = n + 1
VSpec == VInit /\ [][VNext]_n

PermInv   == LET q == CornerFirst(n) IN Len(q) = n * n /\ SeqRange(q) = Grid(n)
SortedInv == StrictlySorted(CornerFirst(n))
\* shell s occupies exactly the positions s*s+1 .. (s+1)*(s+1)
ShellInv  == LET q == CornerFirst(n) IN
               \A s \in 0..(n - 1) : \A p \in (s * s + 1)..((s + 1) * (s + 1)) : Shell(q[p]) = s
PrefixInv == \A k \in 1..(n - 1) : PrefixOf(CornerFirst(k), CornerFirst(n))
LegacyInv ==
  /\ \A mode \in Modes : Distinct(LegacyVocab(mode, n))
  /\ Len(LegacyVocab("AOTP_UT_rasterized", n)) = 11 + n * n
  /\ Len(LegacyVocab("AOTP_UT_uniform", n)) = 11 + n * n
  /\ Len(LegacyVocab("AOTP_CTT_indexed", n)) = 14 + n
  /\ SeqRange(LegacyVocab("AOTP_UT_uniform", n)) = SeqRange(LegacyVocab("AOTP_UT_rasterized", n))
  /\ \A k \in 1..(n - 1) : PrefixOf(LegacyVocab("AOTP_UT_uniform", k), LegacyVocab("AOTP_UT_uniform", n))
\* every legacy coordinate token up to 50 x 50 is a token of the published vocabulary
LegacyInVocab == n <= GridMax => SeqRange(UTs(RowMajor(n))) \subseteq SeqRange(SpecVocab)
\* CFLess is a strict total order (small grids: all pairs, all triples)
OrderInv ==
  /\ n <= 12 => \A x \in Grid(n), y \in Grid(n) :
                   /\ ~(CFLess(x, y) /\ CFLess(y, x))
                   /\ (x # y => CFLess(x, y) \/ CFLess(y, x))
                   /\ ~CFLess(x, x)
  /\ n <= 5 => \A x \in Grid(n), y \in Grid(n), z \in Grid(n) : CFLess(x, y) /\ CFLess(y, z) => CFLess(x, z)
=============================================================================
