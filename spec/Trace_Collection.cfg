SPECIFICATION TSpec
CONSTANTS
  MaxLen = 0
  MaxMembers = 0
  SearchArg = "index_plus_1"
  Side = "left"
  Subtract = "prev"
  CacheCum = "none"
  MazesBuild = "atomic"
INVARIANT Done
CHECK_DEADLOCK FALSE
