SPECIFICATION Spec
CONSTANTS
  Shapes <- ScopeSmall
  OtherShapes <- ScopeOther
  HashVariant = "conn_sol"
  Parts = {"pairs", "ctor", "ds"}
INVARIANTS LabelSound ScopeWellFormed EqLaws HashConsistent CtorSound DsSound
CHECK_DEADLOCK FALSE
