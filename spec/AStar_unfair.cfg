CONSTANTS Shapes <- ShapesSmall
SPECIFICATION Spec
PROPERTY Answered
CHECK_DEADLOCK FALSE
