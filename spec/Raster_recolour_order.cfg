CONSTANTS Shapes <- ShapesTiny
CONSTANTS Variant = "recolour_order"
SPECIFICATION Spec
INVARIANT TargetShowsOnlySolution
CHECK_DEADLOCK FALSE
