----------------------------- MODULE GenOracle -----------------------------
(* Layer-P clauses of C01 and C12 over ONE observed generator call of the real code.
   A record r holds the raw returned array and the raw generation_meta (see harness/gens.py):
     gen, R, C (requested shape), shape, dtype, conn (raw nested 0/1 lists),
     dflt (all arguments default), pk ("none" | "zero" | "mid" | "one"), acc, maxd (normalised ints, -1 = default),
     forks, m_has_vis, m_vis, m_has_fully, m_fully, m_has_start, m_start, a_has_start, a_start,
     ends (pairs [s, e] of endpoints of generate_random_path draws on the returned maze)            *)
EXTENDS Lattice, TLC
DfsLike(r) == r.gen \in {"gen_dfs", "gen_prim"}
ShapeOK(r) == r.shape = <<2, r.R, r.C>> /\ r.dtype = "bool" /\ WellShaped(r.R, r.C, r.conn)

Clauses01(r) ==
  IF ~ShapeOK(r) THEN {"not_bool_array_of_requested_shape"} ELSE
  LET R == r.R  C == r.C  cn == r.conn IN
     (IF InGrid(R, C, cn) THEN {} ELSE {"connection_leaves_grid"})
  \cup (IF (DfsLike(r) \/ r.gen = "gen_wilson") /\ r.dflt /\ ~IsSpanningTree(R, C, cn)
          THEN {"default_args_not_spanning_tree"} ELSE {})
  \cup (IF r.gen = "gen_percolation" /\ r.pk = "zero" /\ SetSlots(R, C, cn) # {} THEN {"p0_has_connection"} ELSE {})
  \cup (IF r.gen = "gen_percolation" /\ r.pk = "one" /\ ~(InteriorSlots(R, C) \subseteq SetSlots(R, C, cn))
          THEN {"p1_missing_lattice_edge"} ELSE {})

HasStart(r) == r.m_has_start \/ r.a_has_start
StartOf(r) == IF r.m_has_start THEN Cell(r.m_start) ELSE Cell(r.a_start)
Clauses12(r) ==
  IF ~ShapeOK(r) THEN {} ELSE      \* (C01 reports the malformed array; nothing here can be evaluated)
  LET R == r.R  C == r.C  cn == r.conn
      flagged == r.m_has_fully /\ r.m_fully
      conn == Connected(R, C, cn)
      startOK == HasStart(r) /\ InGridCell(R, C, StartOf(r))
      V == IF startOK THEN Reach(R, C, cn, StartOf(r)) ELSE {}
      nV == Cardinality(V)
      accN == IF r.acc = -1 THEN R * C ELSE r.acc
      noLimits == r.forks /\ (r.maxd = -1 \/ r.maxd >= 2 * R * C)
  IN
     (IF r.m_has_vis /\ startOK /\ CellSet(r.m_vis) # V THEN {"visited_cells_not_the_reachable_set"} ELSE {})
  \cup (IF flagged /\ ~conn THEN {"flagged_fully_connected_but_is_not"} ELSE {})
  \cup (IF DfsLike(r) /\ (flagged # conn) THEN {"dfs_flag_not_iff_connected"} ELSE {})
  \cup (IF ~flagged /\ ~r.m_has_vis THEN {"unflagged_without_visited_cells"} ELSE {})
  \cup (IF DfsLike(r) /\ startOK THEN
            (IF InGrid(R, C, cn) /\ NEdges(R, C, cn) = nV - 1 THEN {} ELSE {"dfs_not_a_tree_on_visited"})
            \cup (IF nV <= MaxI(accN, 1) THEN {} ELSE {"dfs_more_cells_than_accessible"})
            \cup (IF noLimits /\ nV # MaxI(MinI(accN, R * C), 1) THEN {"dfs_cell_count_not_exact"} ELSE {})
            \cup (IF ~r.forks /\ \E v \in V : Degree(R, C, cn, v) > 2 THEN {"dfs_no_forks_not_a_corridor"} ELSE {})
        ELSE {})
  \cup (IF \E k \in 1..Len(r.ends) : Dist(R, C, cn, Cell(r.ends[k][1]), Cell(r.ends[k][2])) = Infinity
          THEN {"random_endpoints_not_mutually_reachable"} ELSE {})
============================================================================
