SPECIFICATION TSpec
CONSTANTS
  Shapes <- ScopeTiny
  OtherShapes <- ScopeOther
  HashVariant = "value"
  Parts = {}
INVARIANT Done
CHECK_DEADLOCK FALSE
