------------------------------- MODULE RngEmit -------------------------------
(* spec -> code: every behaviour of RngHistory that reaches the horizon prints its action history as one
   JSON line; the harness executes these histories against the real library (use (B)). *)
EXTENDS RngHistory, Json
EmitAtHorizon == steps = MaxSteps => PrintT("HIST " \o ToJson(hist))
==============================================================================
