CONSTANTS Shapes <- ShapesWide
SPECIFICATION Spec
INVARIANT Sound
INVARIANT Complete
INVARIANT SelfQuery
INVARIANT ClosedExact
INVARIANT MeasureNat
PROPERTY Terminates
CHECK_DEADLOCK FALSE
