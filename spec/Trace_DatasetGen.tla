--------------------------- MODULE Trace_DatasetGen ---------------------------
(* Use (C), Layer M: events recorded by the interposed _maze_gen_init_worker / _generate_maze_helper during
   real MazeDataset.generate calls are replayed through the ACTIONS of DatasetGen.tla.
   One log record = one parent-process history = a sequence of generate calls over two configs "a" / "b":
     calls[k] = [cfg, mode ("serial" | "pool"), W,
                 events = sequence of [ev ("init" | "task"), w (worker 1..W; 0 = parent), idx (1-based), g (global seen: "a" | "b" | "unset")]]
   imap hands tasks out in index order, so a call's task events are given sorted by index, each worker's init
   before its first task (per-process order is kept by the recorder).  Every history uses n_mazes = NMazes. *)
EXTENDS DatasetGen, Integers, Json, IOUtils, SequencesExt
Log == ndJsonDeserialize(IOEnv.VERIF_LOG)
VARIABLES tid, k, l, half, bad
tvars == <<dvars, tid, k, l, half, bad>>
T == Log[tid]
Cl == T.calls[k]
Ev == Cl.events[l]
Verdict(cs) == IF cs = {} THEN bad ELSE bad \cup {[id |-> T.id, c |-> cs]}
TInit == Init /\ tid = 1 /\ k = 1 /\ l = 0 /\ half = 0 /\ bad = {}
Fresh == /\ pglobal' = Unset /\ call' = NoCall /\ wglobal' = [w \in Workers |-> Unset]
         /\ wstate' = [w \in Workers |-> St("gone")] /\ nextIdx' = NMazes + 1 /\ results' = [i \in Idx |-> Unset] /\ ncalls' = 0 /\ out' = <<>>
Live == tid <= Len(Log)
TStart == /\ Live /\ l = 0 /\ call = NoCall
          /\ IF Cl.mode = "serial" THEN StartSerial(Cl.cfg) ELSE StartParallel(Cl.cfg, Cl.W)
          /\ l' = 1 /\ UNCHANGED <<tid, k, half, bad>>
\* the serial path's own initializer call is part of StartSerial: the logged global must be what the model set
TSerialInit == /\ Live /\ l >= 1 /\ l <= Len(Cl.events) /\ Cl.mode = "serial" /\ Ev.ev = "init" /\ Ev.g = pglobal
               /\ l' = l + 1 /\ UNCHANGED <<dvars, tid, k, half, bad>>
TSerialTask == /\ Live /\ l >= 1 /\ l <= Len(Cl.events) /\ Cl.mode = "serial" /\ Ev.ev = "task" /\ Ev.w = 0
               /\ nextIdx <= NMazes /\ nextIdx = Ev.idx /\ SerialItem /\ results'[Ev.idx] = Ev.g
               /\ l' = l + 1 /\ UNCHANGED <<tid, k, half, bad>>
TWorkerInit == /\ Live /\ l >= 1 /\ l <= Len(Cl.events) /\ Cl.mode = "pool" /\ Ev.ev = "init" /\ Ev.w \in Workers
               /\ WorkerInit(Ev.w) /\ wglobal'[Ev.w] = Ev.g
               /\ l' = l + 1 /\ UNCHANGED <<tid, k, half, bad>>
TTake == /\ Live /\ l >= 1 /\ l <= Len(Cl.events) /\ Cl.mode = "pool" /\ Ev.ev = "task" /\ half = 0 /\ Ev.w \in Workers
         /\ nextIdx <= NMazes /\ nextIdx = Ev.idx /\ Take(Ev.w)
         /\ half' = 1 /\ UNCHANGED <<tid, k, l, bad>>
TFinish == /\ Live /\ l >= 1 /\ l <= Len(Cl.events) /\ Cl.mode = "pool" /\ half = 1
           /\ FinishTask(Ev.w) /\ results'[Ev.idx] = Ev.g
           /\ half' = 0 /\ l' = l + 1 /\ UNCHANGED <<tid, k, bad>>
\* end of a call: Collect must be enabled; the design invariants are evaluated on this REAL behaviour
TCollect == /\ Live /\ l = Len(Cl.events) + 1 /\ Collect
            /\ bad' = Verdict(IF \A i \in Idx : results[i] = Cl.cfg THEN {} ELSE {"M:item_built_from_another_config"})
            /\ IF k < Len(T.calls) THEN k' = k + 1 /\ l' = 0 ELSE k' = k /\ l' = -1
            /\ tid' = tid /\ half' = 0
Explained == \/ l = -1
             \/ (l = 0 /\ call = NoCall /\ ncalls < MaxCalls /\ (Cl.mode = "pool" => Cl.W \in Workers))
             \/ ENABLED TSerialInit \/ ENABLED TSerialTask \/ ENABLED TWorkerInit \/ ENABLED TTake \/ ENABLED TFinish \/ ENABLED TCollect
\* nothing explains the next event: model divergence, drop the rest of this history
TDiverge == /\ Live /\ ~Explained
            /\ bad' = Verdict({"M:event_not_explained_by_DatasetGen"})
            /\ tid' = tid + 1 /\ k' = 1 /\ l' = 0 /\ half' = 0 /\ Fresh
\* the next history starts in a fresh parent process
TReset == /\ Live /\ l = -1 /\ Fresh /\ tid' = tid + 1 /\ k' = 1 /\ l' = 0 /\ half' = 0 /\ UNCHANGED bad
TNext == TReset \/ TStart \/ TSerialInit \/ TSerialTask \/ TWorkerInit \/ TTake \/ TFinish \/ TCollect \/ TDiverge
TSpec == TInit /\ [][TNext]_tvars
Done == (tid = Len(Log) + 1) =>
          ndJsonSerialize(IOEnv.VERIF_OUT, <<[id |-> -1, c |-> {ToString(Len(Log))}]>> \o SetToSeq(bad))
================================================================================
