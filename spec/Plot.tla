------------------------------- MODULE Plot -------------------------------
(* C20 - what the matplotlib picture of a maze (MazePlot) IS.

   Statement level (independent of how the code paints):
     an image of  R*ul+1  x  C*ul+1  pixels for unit length ul >= 3; pixel (y, x), 0-based, y down;
     BlockRect(c)   the block of cell c = (row, col): the (ul-1) x (ul-1) square strictly inside the
                    unit grid lines  y = row*ul, (row+1)*ul  and  x = col*ul, (col+1)*ul
     StripRect(s)   the separator strip of the lattice edge s = the pixels strictly BETWEEN the blocks
                    of its two cells (defined from the two blocks, not by index arithmetic)
     PlotClausesOn  the clauses of the statement on an ARBITRARY image, given through an accessor
                    Vals(q) = the set of values found in rectangle q (raw pixel rows or a lossless
                    2-D run-length encoding, RawVals / RleVals):
                      no cell values:  block = NodeV (1), strip = PassV (0.93) iff connected, WallV (-1) otherwise
                      cell values nv:  block of c = nv[c], strip = the value of one of its two cells iff
                                       connected, NaNV (masked / NaN, painted black) otherwise
                    (value codes: 100 * value as an integer, NaNV for NaN / masked)
     Coord2(c)      TWICE the data coordinates of the centre of cell c:  2 * ul * (col + 1/2, row + 1/2),
                    first component = horizontal axis (columns), second = vertical axis (rows)
   Layer M (how the code paints, `_lattice_maze_to_img`): ModelRects = the closed form of the whole
   image incl. the details the statement leaves open (posts, border, the one-pixel overhang that gives
   a passage the value of the upper / left cell when cell values are supplied).

   Model-checkable part: for every connection structure of every shape in Shapes, every ul in ULs and
   both branches, the painting loop of the code is executed as explicit steps (PaintNode, PaintDown,
   PaintRight per cell, row-major; the inverted-connection-list hack in the plain branch, the overhang
   hack in the cell-value branch) and TLC checks:
     Partition        every pixel belongs to exactly one of cell block / edge strip / post-or-border
     StripBijection   strips are non-empty, pairwise disjoint, in bijection with the lattice edges, and
                      every strip pixel has the blocks of exactly its edge's two cells on either side
     CoordCentre      Coord2(c) is the centre of BlockRect(c) (pixel (y, x) has its centre at data (x, y))
     StripIndexing    the strip between two blocks is where the code's index arithmetic puts it
                      (the four geometric theorems do not depend on the connections: checked once per (shape, ul))
     Faithful         the finished image has the stated size, satisfies every clause of the statement
                      and equals the closed form ModelRects
     Determined       (Deep) changing any single block / strip pixel of the finished image is rejected
   Broken variants (boolean CONSTANTS, each must make TLC report a violation):
     TransposeCoord      Coord2 with row and column exchanged            -> CoordCentre
     SwapStripIndex      the painter indexes the strips with row/col exchanged -> Faithful
     HackInBothBranches  the inverted connection list used in the cell-value branch too -> Faithful *)
EXTENDS Pixels, TLC
CONSTANTS Shapes,              \* set of <<rows, cols>>
          ULs,                 \* set of unit lengths (>= 3)
          TransposeCoord, SwapStripIndex, HackInBothBranches,   \* broken variants (all FALSE = the design)
          Deep                 \* BOOLEAN: also check Determined (expensive)
VARIABLES g, img, k, pc
pvars == <<g, img, k, pc>>

ShapesC20 == {<<1, 2>>, <<2, 1>>, <<2, 2>>, <<2, 3>>, <<3, 2>>}
Shapes2x2 == {<<2, 2>>}
ShapesC20Deep == {<<1, 2>>, <<2, 1>>, <<2, 2>>}
ULsSmall == {3, 4, 5}
ULsDeep == {3, 4}

(* ---------------- value codes ---------------- *)
NodeV == 100      \* 1.0   cell block without cell values
PassV == 93       \* 0.93  passage without cell values
WallV == 0 - 100  \* -1.0  wall / background
NaNV == 999999    \* NaN or masked pixel (walls when cell values are supplied)
InexactV == 999998 \* a value that is not an exact multiple of 1/100 (never expected)

(* ---------------- geometry (statement level) ---------------- *)
ImgH(R, ul) == R * ul + 1
ImgW(C, ul) == C * ul + 1
\* rectangles are <<y0, y1, x0, x1>>, inclusive, 0-based
RectPx(q) == (q[1]..q[2]) \X (q[3]..q[4])
InRect(y, x, q) == y >= q[1] /\ y <= q[2] /\ x >= q[3] /\ x <= q[4]
NonEmptyRect(q) == q[1] <= q[2] /\ q[3] <= q[4]
BlockRect(c, ul) == <<c[1] * ul + 1, (c[1] + 1) * ul - 1, c[2] * ul + 1, (c[2] + 1) * ul - 1>>
\* the pixels strictly between two blocks A (upper / left) and B (lower / right) of adjacent cells
Between(A, B) == IF A[3] = B[3] THEN <<A[2] + 1, B[1] - 1, A[3], A[4]>>   \* same columns: B below A
                                ELSE <<A[1], A[2], A[4] + 1, B[3] - 1>>   \* same rows: B right of A
LesserCell(s) == <<s[2], s[3]>>
GreaterCell(s) == IF s[1] = 0 THEN <<s[2] + 1, s[3]>> ELSE <<s[2], s[3] + 1>>
StripRect(s, ul) == Between(BlockRect(LesserCell(s), ul), BlockRect(GreaterCell(s), ul))
\* everything else: posts (grid-line crossings) and the four border lines between them
Posts(R, C, ul) == {<<i * ul, i * ul, j * ul, j * ul>> : i \in 0..R, j \in 0..C}
BorderSegs(R, C, ul) ==
  {<<0, 0, j * ul + 1, (j + 1) * ul - 1>> : j \in 0..(C - 1)} \cup {<<R * ul, R * ul, j * ul + 1, (j + 1) * ul - 1>> : j \in 0..(C - 1)}
  \cup {<<i * ul + 1, (i + 1) * ul - 1, 0, 0>> : i \in 0..(R - 1)} \cup {<<i * ul + 1, (i + 1) * ul - 1, C * ul, C * ul>> : i \in 0..(R - 1)}

\* twice the data coordinates <<2x, 2y>> of the centre of cell c = <<row, col>>
Coord2(c, ul) == IF TransposeCoord THEN <<ul * (2 * c[1] + 1), ul * (2 * c[2] + 1)>>
                                   ELSE <<ul * (2 * c[2] + 1), ul * (2 * c[1] + 1)>>
\* the cell whose centre a point <<2x, 2y>> would be (inverse of the untransposed map)
CellOfPt(pt, ul) == <<((pt[2] \div ul) - 1) \div 2, ((pt[1] \div ul) - 1) \div 2>>

(* ---------------- image accessors ---------------- *)
NvAt(nv, c) == nv[c[1] + 1][c[2] + 1]
\* raw: sequence of rows of value codes
RawRectangular(a) == Len(a) >= 1 /\ \A y \in 1..Len(a) : Len(a[y]) = Len(a[1])
RawH(a) == Len(a)
RawW(a) == IF Len(a) = 0 THEN 0 ELSE Len(a[1])
RawVals(a, q) == {a[p[1] + 1][p[2] + 1] : p \in RectPx(q)}
\* lossless 2-D run-length encoding: pats = distinct rows, each a sequence of runs <<value, x0, len>>;
\* vruns = sequence of <<pattern index, y0, count>> (consecutive equal rows)
RunsTile(rs) == /\ Len(rs) >= 1 /\ rs[1][2] = 0
                /\ \A i \in 1..Len(rs) : rs[i][3] >= 1
                /\ \A i \in 1..(Len(rs) - 1) : rs[i + 1][2] = rs[i][2] + rs[i][3]
RunsEnd(rs) == rs[Len(rs)][2] + rs[Len(rs)][3]
RleOK(pats, vruns) == /\ Len(pats) >= 1
                      /\ \A i \in 1..Len(pats) : RunsTile(pats[i]) /\ RunsEnd(pats[i]) = RunsEnd(pats[1])
                      /\ RunsTile(vruns) /\ \A i \in 1..Len(vruns) : vruns[i][1] \in 1..Len(pats)
RleH(pats, vruns) == RunsEnd(vruns)
RleW(pats, vruns) == RunsEnd(pats[1])
Overlaps(run, lo, hi) == run[2] <= hi /\ run[2] + run[3] - 1 >= lo
RleVals(pats, vruns, q) ==
  UNION {{pats[vruns[i][1]][j][1] : j \in {jj \in 1..Len(pats[vruns[i][1]]) : Overlaps(pats[vruns[i][1]][jj], q[3], q[4])}}
           : i \in {ii \in 1..Len(vruns) : Overlaps(vruns[ii], q[1], q[2])}}

(* ---------------- the clauses of the statement, on an arbitrary image ---------------- *)
\* bvs = {<<cell, set of values found in its block>>}, svs = {<<interior slot, set of values found in its strip>>}
\* (sets of pairs, so that every rectangle of the image is scanned exactly once per record)
StatedClauses(conn, hasnv, nv, bvs, svs) ==
  LET wall == IF hasnv THEN NaNV ELSE WallV
      on(s) == Bit(conn, s[1], s[2], s[3])
      passage(e) == IF hasnv THEN \E c \in SlotEdge(e[1]) : e[2] = {NvAt(nv, c)} ELSE e[2] = {PassV}
  IN (IF hasnv THEN (IF \A e \in bvs : e[2] = {NvAt(nv, e[1])} THEN {} ELSE {"cell_values"})
               ELSE (IF \A e \in bvs : e[2] = {NodeV} THEN {} ELSE {"cell_blocks"}))
     \cup (IF \A e \in svs : on(e[1]) => passage(e) THEN {} ELSE {"connected_strip_not_passage"})
     \cup (IF \A e \in svs : ~on(e[1]) => e[2] = {wall} THEN {} ELSE {"unconnected_strip_not_wall"})
PlotClausesOn(R, C, conn, ul, hasnv, nv, Vals(_)) ==
  StatedClauses(conn, hasnv, nv, {<<c, Vals(BlockRect(c, ul))>> : c \in CellsOf(R, C)},
                                 {<<s, Vals(StripRect(s, ul))>> : s \in InteriorSlots(R, C)})

(* ---------------- Layer M: the closed form of what the code paints ---------------- *)
\* the code's index arithmetic, for every slot (also the non-interior ones of the last row / column,
\* whose strip lies on the border); equals StripRect on the interior slots (StripIndexing, checked by TLC)
SlotStripRect(s, ul) == IF s[1] = 0 THEN <<(s[2] + 1) * ul, (s[2] + 1) * ul, s[3] * ul + 1, (s[3] + 1) * ul - 1>>
                                    ELSE <<s[2] * ul + 1, (s[2] + 1) * ul - 1, (s[3] + 1) * ul, (s[3] + 1) * ul>>
ModelBlockV(hasnv, nv, c) == IF hasnv THEN NvAt(nv, c) ELSE NodeV
ModelStripV(conn, hasnv, nv, s) == IF Bit(conn, s[1], s[2], s[3]) THEN (IF hasnv THEN NvAt(nv, LesserCell(s)) ELSE PassV)
                                                                 ELSE (IF hasnv THEN NaNV ELSE WallV)
\* top row, left column: background; posts: background, or the overhang of the cell up-left of them
ModelOtherRects(R, C, ul, hasnv, nv) ==
  {<<<<0, 0, 0, C * ul>>, WallV>>, <<<<1, R * ul, 0, 0>>, WallV>>}
  \cup {<<<<i * ul, i * ul, j * ul, j * ul>>, IF hasnv THEN NvAt(nv, <<i - 1, j - 1>>) ELSE WallV>> : i \in 1..R, j \in 1..C}
ModelRects(R, C, conn, ul, hasnv, nv) ==
  {<<BlockRect(c, ul), ModelBlockV(hasnv, nv, c)>> : c \in CellsOf(R, C)}
  \cup {<<SlotStripRect(s, ul), ModelStripV(conn, hasnv, nv, s)>> : s \in Slots(R, C)}
  \cup ModelOtherRects(R, C, ul, hasnv, nv)
\* bvs as above, svs over ALL slots
ModelClauses(R, C, conn, ul, hasnv, nv, bvs, svs, Vals(_)) ==
  (IF /\ \A e \in bvs : e[2] = {ModelBlockV(hasnv, nv, e[1])}
      /\ \A e \in svs : e[2] = {ModelStripV(conn, hasnv, nv, e[1])}
      /\ \A e \in ModelOtherRects(R, C, ul, hasnv, nv) : Vals(e[1]) = {e[2]}
   THEN {} ELSE {"M:image_model"})
  \cup (IF hasnv /\ \E e \in svs : Interior(R, C, e[1]) /\ Bit(conn, e[1][1], e[1][2], e[1][3]) /\ e[2] # {NvAt(nv, LesserCell(e[1]))}
          THEN {"M:passage_value_of_unit_cell"} ELSE {})

\* size first (the accessors index by position), then the statement, then the model
ImageClauses(R, C, conn, ul, hasnv, nv, h, w, rectangular, Vals(_)) ==
  IF ~rectangular \/ h # ImgH(R, ul) \/ w # ImgW(C, ul) THEN {"image_size"}
  ELSE LET bvs == {<<c, Vals(BlockRect(c, ul))>> : c \in CellsOf(R, C)}
           svs == {<<s, Vals(SlotStripRect(s, ul))>> : s \in Slots(R, C)}
       IN StatedClauses(conn, hasnv, nv, bvs, {e \in svs : Interior(R, C, e[1])})
          \cup ModelClauses(R, C, conn, ul, hasnv, nv, bvs, svs, Vals)

(* ---------------- the painting loop of the code, as a state machine ---------------- *)
ConnsOf(r, c) == {ConnOfSlots(r, c, S) : S \in SUBSET InteriorSlots(r, c)}
\* distinct cell values, different from every constant
ModelNv(R, C) == [i \in 1..R |-> [j \in 1..C |-> 7 + 10 * ((i - 1) * C + (j - 1))]]
Nv == ModelNv(g.R, g.C)
Paint(a, q, v) == [y \in 1..Len(a) |-> [x \in 1..Len(a[y]) |-> IF InRect(y - 1, x - 1, q) THEN v ELSE a[y][x]]]
Cur == <<k \div g.C, k % g.C>>
\* node rectangle: with cell values one pixel of overhang to the right and below (node_bdry_hack)
NodeRect(c) == LET b == BlockRect(c, g.ul) IN IF g.nvb THEN <<b[1], b[2] + 1, b[3], b[4] + 1>> ELSE b
\* the painter's own strip indexing (row/col exchanged in the broken variant)
CodeStrip(d, c) == IF SwapStripIndex THEN SlotStripRect(<<d, c[2], c[1]>>, g.ul) ELSE SlotStripRect(<<d, c[1], c[2]>>, g.ul)
\* connection_list_processed: inverted without cell values (the hack), as given with cell values
Processed(d, c) == IF ~g.nvb \/ HackInBothBranches THEN ~Bit(g.conn, d, c[1], c[2]) ELSE Bit(g.conn, d, c[1], c[2])
ConnVal == IF g.nvb THEN NaNV ELSE PassV
InImage(q) == q[1] >= 0 /\ q[3] >= 0 /\ q[2] <= g.R * g.ul /\ q[4] <= g.C * g.ul

Init == \E sh \in Shapes : \E cn \in ConnsOf(sh[1], sh[2]) : \E u \in ULs : \E b \in BOOLEAN :
          /\ g = [R |-> sh[1], C |-> sh[2], conn |-> cn, ul |-> u, nvb |-> b]
          /\ img = [y \in 1..ImgH(sh[1], u) |-> [x \in 1..ImgW(sh[2], u) |-> WallV]]
          /\ k = 0 /\ pc = "node"
PaintNode == /\ pc = "node"
             /\ img' = Paint(img, NodeRect(Cur), IF g.nvb THEN NvAt(Nv, Cur) ELSE NodeV)
             /\ pc' = "down" /\ UNCHANGED <<g, k>>
PaintDown == /\ pc = "down"
             /\ img' = IF ~Processed(0, Cur) THEN Paint(img, CodeStrip(0, Cur), ConnVal) ELSE img
             /\ pc' = "right" /\ UNCHANGED <<g, k>>
PaintRight == /\ pc = "right"
              /\ img' = IF ~Processed(1, Cur) THEN Paint(img, CodeStrip(1, Cur), ConnVal) ELSE img
              /\ k' = k + 1 /\ pc' = (IF k + 1 = g.R * g.C THEN "done" ELSE "node") /\ UNCHANGED g
Next == PaintNode \/ PaintDown \/ PaintRight
Spec == Init /\ [][Next]_pvars

(* ---------------- theorems checked on the finite scope ---------------- *)
Start == pc = "node" /\ k = 0
\* the geometry does not depend on the connections or the branch: checked once per (shape, ul)
Geo == Start /\ ~g.nvb /\ SetSlots(g.R, g.C, g.conn) = {}
MCells == CellsOf(g.R, g.C)
MSlots == InteriorSlots(g.R, g.C)
Partition ==
  Geo => LET rest == Posts(g.R, g.C, g.ul) \cup BorderSegs(g.R, g.C, g.ul)
               blocks == {BlockRect(c, g.ul) : c \in MCells}
               strips == [s \in MSlots |-> StripRect(s, g.ul)]
               Owners(y, x) == Cardinality({q \in blocks : InRect(y, x, q)}) + Cardinality({s \in MSlots : InRect(y, x, strips[s])})
                               + Cardinality({q \in rest : InRect(y, x, q)})
           IN /\ Cardinality(blocks) = g.R * g.C
              /\ \A y \in 0..(ImgH(g.R, g.ul) - 1), x \in 0..(ImgW(g.C, g.ul) - 1) : Owners(y, x) = 1
\* the pixel pairs on either side of strip pixel p (above/below for a horizontal strip, left/right for a vertical one)
Sides(s, p) == IF s[1] = 0 THEN <<<<p[1] - 1, p[2]>>, <<p[1] + 1, p[2]>>>> ELSE <<<<p[1], p[2] - 1>>, <<p[1], p[2] + 1>>>>
AdjacentPairs == {e \in SUBSET MCells : Cardinality(e) = 2 /\ \E a, b \in e : Adjacent(a, b)}
StripBijection ==
  Geo =>
    /\ \A s \in MSlots : NonEmptyRect(StripRect(s, g.ul)) /\ Cardinality(RectPx(StripRect(s, g.ul))) = g.ul - 1
    /\ \A s, t \in MSlots : s # t => RectPx(StripRect(s, g.ul)) \cap RectPx(StripRect(t, g.ul)) = {}
    /\ \A e \in AdjacentPairs : Cardinality({s \in MSlots : SlotEdge(s) = e}) = 1
    /\ \A s \in MSlots : SlotEdge(s) \in AdjacentPairs
    /\ Cardinality(MSlots) = g.R * (g.C - 1) + (g.R - 1) * g.C
    /\ \A s \in MSlots : \A p \in RectPx(StripRect(s, g.ul)) :
         LET sd == Sides(s, p) IN
         /\ InRect(sd[1][1], sd[1][2], BlockRect(LesserCell(s), g.ul))
         /\ InRect(sd[2][1], sd[2][2], BlockRect(GreaterCell(s), g.ul))
         /\ SlotEdge(s) = {LesserCell(s), GreaterCell(s)}
CoordCentre ==
  Geo => \A c \in MCells : LET b == BlockRect(c, g.ul) IN
             /\ Coord2(c, g.ul) = <<b[3] + b[4], b[1] + b[2]>>
             /\ CellOfPt(<<b[3] + b[4], b[1] + b[2]>>, g.ul) = c
StripIndexing == Geo => \A s \in MSlots : StripRect(s, g.ul) = SlotStripRect(s, g.ul)
PaintsInside == pc \in {"down", "right"} => InImage(NodeRect(Cur)) /\ InImage(CodeStrip(0, Cur)) /\ InImage(CodeStrip(1, Cur))
Faithful ==
  pc = "done" =>
    LET V(q) == RawVals(img, q) IN
    /\ ImageClauses(g.R, g.C, g.conn, g.ul, g.nvb, Nv, RawH(img), RawW(img), RawRectangular(img), V) = {}
    /\ PlotClausesOn(g.R, g.C, g.conn, g.ul, g.nvb, Nv, V) = {}
    /\ \A e \in ModelRects(g.R, g.C, g.conn, g.ul, g.nvb, Nv) : V(e[1]) = {e[2]}
\* the closed form covers the image exactly once (so Faithful pins every pixel)
ModelCovers ==
  (Start /\ SetSlots(g.R, g.C, g.conn) = {}) => LET mr == ModelRects(g.R, g.C, g.conn, g.ul, g.nvb, Nv) IN
           \A y \in 0..(ImgH(g.R, g.ul) - 1), x \in 0..(ImgW(g.C, g.ul) - 1) : Cardinality({e \in mr : InRect(y, x, e[1])}) = 1
\* the statement's clauses pin every block and strip pixel: any single change is rejected
Palette == {WallV, PassV, NodeV, NaNV} \cup {NvAt(Nv, c) : c \in MCells}
StatedPx == UNION ({RectPx(BlockRect(c, g.ul)) : c \in MCells} \cup {RectPx(StripRect(s, g.ul)) : s \in MSlots})
Determined ==
  (Deep /\ pc = "done") =>
    \A p \in StatedPx : \A v \in Palette \ {img[p[1] + 1][p[2] + 1]} :
      LET corrupted == [img EXCEPT ![p[1] + 1][p[2] + 1] = v]
          V(q) == RawVals(corrupted, q) IN
      PlotClausesOn(g.R, g.C, g.conn, g.ul, g.nvb, Nv, V) # {}
\* the run-length accessor agrees with the raw accessor (one pattern per row, one run per pixel)
TrivialRle(a) == [pats |-> [y \in 1..Len(a) |-> [x \in 1..Len(a[y]) |-> <<a[y][x], x - 1, 1>>]],
                  vruns |-> [y \in 1..Len(a) |-> <<y, y - 1, 1>>]]
RleAgrees ==
  pc = "done" =>
    LET e == TrivialRle(img) IN
    /\ RleOK(e.pats, e.vruns) /\ RleH(e.pats, e.vruns) = RawH(img) /\ RleW(e.pats, e.vruns) = RawW(img)
    /\ \A c \in MCells : RleVals(e.pats, e.vruns, BlockRect(c, g.ul)) = RawVals(img, BlockRect(c, g.ul))
    /\ \A s \in MSlots : RleVals(e.pats, e.vruns, StripRect(s, g.ul)) = RawVals(img, StripRect(s, g.ul))
=============================================================================
