CONSTANTS Shapes <- ShapesSmall
CONSTANTS Variant = "none"
SPECIFICATION Spec
INVARIANT ScopeOK
INVARIANT MechIsStatement
INVARIANT InputHidesSolution
INVARIANT TargetShowsOnlySolution
INVARIANT TargetIsMaskedInput
INVARIANT ExtendShape
INVARIANT ExtendBlocks
INVARIANT IsolatedCellsWalled
INVARIANT IsolatedMeans4Nbr
INVARIANT ExtendDoubles
INVARIANT BatchOrder
CHECK_DEADLOCK FALSE
