CONSTANTS Shapes <- ShapesTiny
CONSTANTS BugWestSlice = TRUE
CONSTANTS BugNoSort = FALSE
SPECIFICATION Spec
INVARIANT TypeOK
INVARIANT InvPairs
INVARIANT InvNeighbours
INVARIANT InvComponents
INVARIANT InvPaths
INVARIANT InvAdjList
INVARIANT InvRebuild
INVARIANT InvForks
PROPERTY ToggleProp
CHECK_DEADLOCK FALSE
