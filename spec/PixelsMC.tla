---------------------------- MODULE PixelsMC ----------------------------
(* Model-checkable part of Pixels.tla (kept apart so that Pixels.tla stays variable-free and can be
   EXTENDed by the trace / raster / plot modules).

   Scope (from the constants): every connection structure of every shape in Shapes, the three maze
   kinds, every ordered pair (start, end) incl. start = end, and for a solved maze every shortest
   path (ShortestOnly) or every simple path (~ShortestOnly: the premise of the read-back clause is
   dropped and TLC must exhibit a path on which the ordering walk has no unique continuation).

   Behaviour:  pick a maze -> render it -> read the picture back with the ordering walk as explicit
   steps (WalkStep appends THE unique candidate, otherwise the walk is stuck). *)
EXTENDS Pixels, TLC
CONSTANTS Shapes,            \* set of <<rows, cols>>
          ShortestOnly,      \* BOOLEAN: solutions are shortest paths (the statement's premise)
          Deep               \* BOOLEAN: also prove that every one-pixel change of a picture is rejected by
                             \* the statement's clauses, and that Px (pointwise) = PxImage (expensive)
VARIABLES m, pc, sol
vars == <<m, pc, sol>>

ShapesDeep == ShapesTiny \cup {<<1, 3>>, <<3, 1>>}
ConnsOf(r, c) ==
  {x \in [1..2 -> [1..r -> [1..c -> {0, 1}]]] :
     (\A j \in 1..c : x[1][r][j] = 0) /\ (\A i \in 1..r : x[2][i][c] = 0)}
Cells == CellsOf(m.R, m.C)

\* all shortest / all simple paths s -> t as sequences of cells
RECURSIVE ExtShortest(_, _, _)
ExtShortest(p, t, dT) ==
  LET a == p[Len(p)] IN
  IF a = t THEN {p}
  ELSE UNION {ExtShortest(Append(p, b), t, dT) : b \in {n \in NbC(m.R, m.C, m.conn, a) : dT[n] = dT[a] - 1}}
ShortestPaths(s, t) ==
  LET dT == [c \in Cells |-> Dist(m.R, m.C, m.conn, c, t)] IN
  IF dT[s] = Infinity THEN {} ELSE ExtShortest(<<s>>, t, dT)
RECURSIVE ExtSimple(_, _)
ExtSimple(p, t) ==
  LET a == p[Len(p)] IN
  IF a = t THEN {p}
  ELSE UNION {ExtSimple(Append(p, b), t) : b \in {n \in NbC(m.R, m.C, m.conn, a) : \A k \in 1..Len(p) : p[k] # n}}
Paths(s, t) == IF ShortestOnly THEN ShortestPaths(s, t) ELSE ExtSimple(<<s>>, t)

Init == \E sh \in Shapes : \E cn \in ConnsOf(sh[1], sh[2]) :
          /\ m = [kind |-> KLattice, R |-> sh[1], C |-> sh[2], conn |-> cn, start |-> <<>>, end |-> <<>>, sol |-> <<>>]
          /\ pc = "pick" /\ sol = <<>>

PickLattice == pc = "pick" /\ pc' = "render" /\ UNCHANGED <<m, sol>>
PickTargeted == /\ pc = "pick"
                /\ \E s \in Cells, e \in Cells : m' = [m EXCEPT !.kind = KTargeted, !.start = s, !.end = e]
                /\ pc' = "render" /\ UNCHANGED sol
PickSolved == /\ pc = "pick"
              /\ \E s \in Cells, e \in Cells : \E p \in Paths(s, e) :
                   m' = [m EXCEPT !.kind = KSolved, !.start = s, !.end = e, !.sol = p]
              /\ pc' = "render" /\ UNCHANGED sol

\* the picture that is read back, and what the reader extracts from it before walking
Img == PxImage(m, TRUE, TRUE)
\* after rendering: a solved maze inside the premise is read back step by step
Render == /\ pc = "render"
          /\ IF IsSolved(m) /\ Cell(m.start) # Cell(m.end)
               THEN pc' = "walk" /\ sol' = <<CHOOSE q \in MarkedCells(Img, START) : TRUE>>
               ELSE pc' = "done" /\ sol' = sol
          /\ UNCHANGED m
WalkEnd == CHOOSE q \in MarkedCells(Img, END) : TRUE
Cands == PxWalkCands(ImgR(Img), ImgC(Img), ImgConn(Img), MarkedCells(Img, PATH) \cup {WalkEnd}, sol)
WalkStep == /\ pc = "walk" /\ sol[Len(sol)] # WalkEnd /\ Cardinality(Cands) = 1
            /\ sol' = Append(sol, CHOOSE b \in Cands : TRUE) /\ UNCHANGED <<m, pc>>
Stuck == /\ pc = "walk" /\ sol[Len(sol)] # WalkEnd /\ Cardinality(Cands) # 1
         /\ pc' = "stuck" /\ UNCHANGED <<m, sol>>
Finish == pc = "walk" /\ sol[Len(sol)] = WalkEnd /\ pc' = "done" /\ UNCHANGED <<m, sol>>
Next == PickLattice \/ PickTargeted \/ PickSolved \/ Render \/ WalkStep \/ Stuck \/ Finish
Spec == Init /\ [][Next]_vars

(* ---------------- theorems checked on the finite scope ---------------- *)
FlagCombos == {f \in BOOLEAN \X BOOLEAN : Accepted(f[1], f[2])}
ScopeOK == pc = "render" => WellFormedMaze(m)
\* the definitional picture satisfies every clause of the statement, for all accepted flags;
\* the ASCII drawing is that picture and determines it (CharOf injective on the palette)
RenderFaithful ==
  pc = "render" => \A f \in FlagCombos :
    LET img == PxImage(m, f[1], f[2])  txt == Ascii(m, f[1], f[2]) IN
    /\ ImgClauses(m, f[1], f[2], img) = {}
    /\ AsciiClauses(img, txt) = {}
    /\ \A y \in 1..PxH(m), x \in 1..PxW(m) : ColourOf(txt[y][x]) = img[y][x]
\* Px (pointwise definition) and PxImage (the same with the mark sets bound once) agree
PxPointwise ==
  (Deep /\ pc = "render") => \A f \in FlagCombos :
    LET img == PxImage(m, f[1], f[2]) IN
    \A y \in 0..(PxH(m) - 1), x \in 0..(PxW(m) - 1) : img[y + 1][x + 1] = Px(m, f[1], f[2], y, x)
\* ... and the clauses pin the picture down: changing any single pixel to any other colour is rejected
Corrupt(img, y, x, c) == [img EXCEPT ![y][x] = c]
ClausesDetermine ==
  (Deep /\ pc = "render") => \A f \in FlagCombos :
    LET img == PxImage(m, f[1], f[2]) IN
    \A y \in 1..PxH(m), x \in 1..PxW(m) : \A c \in Colours \ {img[y][x]} :
      ImgClauses(m, f[1], f[2], Corrupt(img, y, x, c)) # {}
\* reading back the complete picture / ASCII drawing returns the maze, under the premise
DecodeInverts ==
  (pc = "render" /\ Premise(m)) =>
    /\ SameMaze(FromPx(Img), m)
    /\ SameMaze(FromPxAs(m.kind, Img), m)
    /\ SameMaze(FromAsciiAs(m.kind, Ascii(m, TRUE, TRUE)), m)
\* outside the premise start = end: the single END mark cannot be read back as the same kind
SelfLoopNotReadable ==
  (pc = "render" /\ HasEnds(m) /\ Cell(m.start) = Cell(m.end)) => IsPxFail(FromPxAs(m.kind, Img))
\* the ordering walk: always exactly one candidate, every prefix is a prefix of the original
NeverStuck == pc # "stuck"
WalkPrefix == pc = "walk" => (Len(sol) <= Len(m.sol) /\ \A k \in 1..Len(sol) : sol[k] = Cell(m.sol[k]))
WalkDone == (pc = "done" /\ IsSolved(m) /\ Cell(m.start) # Cell(m.end)) => sol = m.sol
=======================================================================
