CONSTANTS Shapes <- ShapesTiny
SPECIFICATION Spec
INVARIANT Honoured
INVARIANT RaiseJustified
CHECK_DEADLOCK FALSE
