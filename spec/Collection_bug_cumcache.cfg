SPECIFICATION Spec
CONSTANTS
  MaxLen = 3
  MaxMembers = 4
  SearchArg = "index_plus_1"
  Side = "left"
  Subtract = "prev"
  CacheCum = "first_use"
  MazesBuild = "atomic"
INVARIANTS TypeOK GetIsConcat
CHECK_DEADLOCK FALSE
