CONSTANTS Shapes <- Shapes3x3
CONSTANTS Variant = "none"
SPECIFICATION Spec
INVARIANT ScopeOK
INVARIANT MechIsStatement
INVARIANT InputHidesSolution
INVARIANT TargetShowsOnlySolution
INVARIANT TargetIsMaskedInput
INVARIANT ExtendShape
INVARIANT ExtendBlocks
INVARIANT IsolatedCellsWalled
CHECK_DEADLOCK FALSE
