\* deliberately broken / refuted variant: TLC must report a violation of NoFalsePositive
SPECIFICATION Spec
CONSTANTS
  Machines = {"fp"}
  LexAlphabet = {"(", ")", ",", " ", "0", "1", "9", "a"}
  FullLex = 3
  MaxLex = 5
  SplitAlphabet = {"(", ")", " ", "0", ","}
  MaxSplit = 4
  MaxTB = 4
  FPCoord = "UT"
  Broken = "none"
INVARIANTS NoFalsePositive
CHECK_DEADLOCK FALSE
