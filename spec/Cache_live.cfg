CONSTANTS Cfgs <- CfgsC12
  W = 3  MaxFaults = 3  MaxReqs = 3  CheckDiff = TRUE  SwallowReadErrors = TRUE
SPECIFICATION FairSpec
INVARIANT NeverWrongData
INVARIANT LoadableAfter
INVARIANT NoReadError
INVARIANT NoStuckRequest
PROPERTY RequestMakesProgress
PROPERTY EveryRequestEnds
PROPERTY HitAfterReturn
CHECK_DEADLOCK FALSE
