SPECIFICATION Spec
CONSTANTS
  MaxLen = 4
  MaxMembers = 6
  SearchArg = "index_plus_1"
  Side = "left"
  Subtract = "prev"
INVARIANTS TypeOK CursorIsConcat GetIsConcat EndRaises ViewsAgree ConcatIsBijection SearchSortedIsInsertionPoint
CHECK_DEADLOCK FALSE
