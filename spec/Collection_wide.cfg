SPECIFICATION Spec
CONSTANTS
  MaxLen = 4
  MaxMembers = 6
  SearchArg = "index_plus_1"
  Side = "left"
  Subtract = "prev"
  CacheCum = "none"
  MazesBuild = "atomic"
INVARIANTS TypeOK CursorIsConcat GetIsConcat EndRaises MazesNeverTruncated MazesAgreeWithLen ViewsAgree ConcatIsBijection SearchSortedIsInsertionPoint
CHECK_DEADLOCK FALSE
