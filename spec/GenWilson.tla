----------------------------- MODULE GenWilson -----------------------------
(* LatticeMazeGenerators.gen_wilson: loop-erased random walks.
   One action per observable step of the code:
     PickStart(c)  outer loop head -> inner loop head: walk_start = c chosen among the unvisited cells
     Step(n)       one iteration of the inner `while not visited[current]` loop with next_cell = n:
                   n already on the path  -> erase the loop:  path := path[: index(n) + 1]
                   n a fresh cell         -> path := path + [n]
                   n on the tree          -> the inner loop exits and the whole path is committed
                                             (the code re-tests visited[current] at the loop head, so
                                             "stepped onto the tree" and "commit" are one step)
   The connection structure is a set of slots (Lattice.tla). *)
EXTENDS Lattice, TLC
CONSTANTS Shapes
VARIABLES R, C, visited, slots, path, phase
wvars == <<R, C, visited, slots, path, phase>>
Cells == CellsOf(R, C)

WInit(r, c, s0) ==
  /\ R = r /\ C = c /\ visited = {s0} /\ slots = {} /\ path = <<>>
  /\ phase = (IF r * c = 1 THEN "done" ELSE "pick")
Init == \E sh \in Shapes : \E s0 \in StartRange(sh[1], sh[2]) : WInit(sh[1], sh[2], s0)

PathSlots(p) == {SlotOf(p[k], p[k+1]) : k \in 1..(Len(p) - 1)}
PathCells(p) == {p[k] : k \in 1..Len(p)}
IndexOf(p, n) == CHOOSE k \in 1..Len(p) : p[k] = n

PickStart(c) ==
  /\ phase = "pick" /\ c \in Cells \ visited
  /\ path' = <<c>> /\ phase' = "walk" /\ UNCHANGED <<R, C, visited, slots>>

OnPath(n) == \E k \in 1..Len(path) : path[k] = n
CanStep(n) == phase = "walk" /\ n \in Nb4(R, C, path[Len(path)])
NextPath(n)    == IF OnPath(n) THEN SubSeq(path, 1, IndexOf(path, n))
                  ELSE IF n \in visited THEN <<>> ELSE Append(path, n)
Commits(n)     == ~OnPath(n) /\ n \in visited
NextVisitedW(n) == IF Commits(n) THEN visited \cup PathCells(path) ELSE visited
NextSlotsW(n)   == IF Commits(n) THEN slots \cup PathSlots(Append(path, n)) ELSE slots
NextPhase(n)   == IF Commits(n) THEN (IF NextVisitedW(n) = Cells THEN "done" ELSE "pick") ELSE "walk"
Step(n) ==
  /\ CanStep(n)
  /\ path' = NextPath(n) /\ visited' = NextVisitedW(n) /\ slots' = NextSlotsW(n) /\ phase' = NextPhase(n)
  /\ UNCHANGED <<R, C>>

PickAny == phase = "pick" /\ \E c \in Cells : PickStart(c)
StepAny == phase = "walk" /\ \E n \in Nb4(R, C, path[Len(path)]) : Step(n)
Next == PickAny \/ StepAny
Spec == Init /\ [][Next]_wvars

\* ---------------------------------------------------------------- invariants
InGridInv == InGridS(R, C, slots)
\* the committed part is always a tree on the visited cells
ForestOnVisited == \E a \in visited : IsTreeOnS(R, C, slots, visited, a)
\* the current walk is a simple lattice path through unvisited cells
WalkSimple == phase = "walk" =>
   /\ Len(path) >= 1 /\ \A a, b \in 1..Len(path) : a # b => path[a] # path[b]
   /\ \A k \in 1..Len(path) : path[k] \in Cells \ visited
   /\ \A k \in 1..(Len(path) - 1) : Adjacent(path[k], path[k+1])
\* C01: the result is a spanning tree of the whole grid
DoneSpanning == phase = "done" => IsSpanningTreeS(R, C, slots) /\ visited = Cells

\* ---------------------------------------------------------------- progress
\* A random walk may wander for ever, so gen_wilson has no bound on its number of steps and  <>(phase = "done")  is FALSE even
\* under weak fairness (WalksForEver below must be violated... by a lasso that keeps erasing its own loops).  What holds:
\*  - the generator is never stuck before it is done (NoTrap), the tree only grows (TreeGrows), and between two commits the
\*    number of unvisited cells strictly decreases (CommitShrinks): at most R*C - 1 commits;
\*  - termination with probability one = the absorption probabilities of the chain add up to one; C19 computes them exactly
\*    (Uniform.tla: every spanning tree has probability 1/N, hence total mass 1 on "done").
NoTrap == phase # "done" => ENABLED Next
TreeGrows == [][visited \subseteq visited' /\ slots \subseteq slots']_wvars
CommitShrinks == [][visited' # visited => Cardinality(Cells \ visited') < Cardinality(Cells \ visited)]_wvars
FairSpec == Spec /\ WF_wvars(Next)
AlwaysReturns == <>(phase = "done")          \* NOT a theorem: the cfg GenWilson_walksforever expects its violation
============================================================================
