---------------------------- MODULE Trace_TokenUtils ----------------------------
(* Use (C) for the token / coordinate utility layer: ndjson observations of the REAL functions of
   maze_dataset/token_utils.py and maze_dataset/utils.py, judged against the definitions of TokenUtils.tla.
   EVERY clause is Layer M (these helpers are outside the listed properties): a disagreement is a
   MODEL-DIVERGENCE, never a VIOLATION.

   Outcomes are logged as  r = "ok" | "raise:<ExceptionType>" | "badtype:<Type>"  plus the value (o / v), empty when r # "ok".
   Text is logged as a list of one-character strings (cs); tokens as strings.

   record types (field t)
     "lex"  cs; i1 / i0 = str_is_coord(s, True / False) as "T" | "F" | outcome; t1 / t0 = coord_str_to_tuple; np = coord_str_to_coord_np;
            no = coord_str_to_tuple_noneable [r, none, v]; sp = coords_string_split_UT [r, o]; sc = strings_to_coords per mode [m, r, o]
     "s2l"  parts (list of cs; the text was passed as a LIST of strings); sc
     "tb"   toks, sv, ev, calls = [a = include_start, b = include_end, u = except_when_tokens_not_unique, r, o]
     "get"  toks; adj, org, tgt, ctx, p0, p1 (get_path_tokens trim_end False / True) [r, o]; rg = get_token_regions [r, a, n]
            optionally bind (subset of {"adj","org","tgt","path"}), ck, maze: the tokens are a real tokenization of that maze
     "eq"   a, b (token lists), r0 / r1 = equal_except_adj_list_sequence(do_except False / True) [r, v], same ("y" | "n" | "-")
     "dir"  pts; which = "card" | "rel"; [r, v]
     "adj"  R, C, conn; calls = [d0, d1, r, o] of connection_list_to_adj_list; edges, isc = is_connection(edges, conn) [r, o]
     "c2s"  items, ck, mode, r, o (coords_to_strings);  "c2t"  v, ut, ix (_coord_to_strings_UT / _indexed)
     "bool" cs, shape, sym, r, flat, oshape;  "pad" toks, s;  "lat" n, edges, deg, man
     optional on every record: argmod = names of the functions that modified the caller's own argument (M:argument_modified)

   Tolerated documented-vs-actual deviations (each reported to the maintainers of the harness, see DESIGN.md):
     TokenUtils!QuirkAdjacent, QuirkSurplusParens, QuirkPathToListEnd, lattice_max_degrees(1) - the documented
     answer OR the code's present answer is accepted in exactly those cases, nothing else. *)
EXTENDS TokenUtils, Json, IOUtils
Log == ndJsonDeserialize(IOEnv.VERIF_LOG)

If(c, name) == IF c THEN {} ELSE {name}      \* the clause `name` holds iff c
Got(x) == [res |-> x.r, out |-> x.o]

\* ------------------------------------------------------------------ lexer functions
IscOK(cs, ws, obs) ==
  \/ obs = (IF IsCoordStr(cs, ws) THEN "T" ELSE "F")
  \/ obs = "T" /\ QuirkSurplusParens(cs, ws)              \* tolerated: surplus outer parentheses are stripped by the code
TupOK(cs, ws, x) == [res |-> x.r, val |-> x.v] = LenientTuple(cs, ws)
NoneOK(cs, x) ==
  /\ x.r = "ok"
  /\ \/ [none |-> x.none, val |-> x.v] = Noneable(cs)
     \/ QuirkSurplusParens(cs, TRUE) /\ ~x.none /\ x.v = LenientTuple(cs, TRUE).val     \* same tolerated quirk
SplitOK(cs, x) == LET w == SplitDecl(cs) IN x.r = "ok" /\ x.o = [k \in 1..Len(w) |-> JoinChars(w[k])]
S2COK(cs, c) ==
  \/ Got(c) = StringsToCoords(cs, c.m)
  \/ Got(c) = StringsToCoordsG(cs, c.m, LAMBDA tk : IsCoordStr(tk, TRUE) \/ QuirkSurplusParens(tk, TRUE))   \* same tolerated quirk
LexClauses(r) ==
  If(IscOK(r.cs, TRUE, r.i1) /\ IscOK(r.cs, FALSE, r.i0), "M:str_is_coord")
  \cup If(TupOK(r.cs, TRUE, r.t1) /\ TupOK(r.cs, FALSE, r.t0), "M:coord_str_to_tuple")
  \cup If(TupOK(r.cs, TRUE, r.np), "M:coord_str_to_coord_np")
  \cup If(NoneOK(r.cs, r.no), "M:coord_str_to_tuple_noneable")
  \cup If(SplitOK(r.cs, r.sp), "M:coords_string_split_UT")
  \cup If(\A k \in 1..Len(r.sc) : S2COK(r.cs, r.sc[k]), "M:strings_to_coords")
S2LClauses(r) == LET cs == JoinBlank(r.parts) IN If(\A k \in 1..Len(r.sc) : S2COK(cs, r.sc[k]), "M:strings_to_coords")

\* ------------------------------------------------------------------ tokens_between and the region getters
\* tolerated: adjacent delimiters, both excluded -> the code raises AssertionError instead of returning []
SliceOK(want, got, quirk) == got = want \/ (quirk /\ want.res = "ok" /\ got = Raise("AssertionError"))
TBClauses(r) ==
  If(\A k \in 1..Len(r.calls) : LET c == r.calls[k] IN
        SliceOK(TBDecl(r.toks, r.sv, r.ev, c.a, c.b, c.u), Got(c), QuirkAdjacent(r.toks, r.sv, r.ev, c.a, c.b)), "M:tokens_between")
PathOK(t, trim, got) ==
  \/ got = GetPath(t, trim)
  \/ ~trim /\ QuirkPathToListEnd(t) /\ got = GetPathActualNoTrim(t)      \* tolerated: trim_end=False runs to the end of the list
Bound(r, what) == "bind" \in DOMAIN r /\ \E k \in 1..Len(r.bind) : r.bind[k] = what
BindClauses(r) ==
  LET ck == r.ck  m == r.maze  E == EdgesOf(r.maze)  a == r.adj.o  ew == EntryWidth(ck) IN
  (IF Bound(r, "org") THEN If(r.org.r = "ok" /\ r.org.o = CoordToks(ck, m.start), "M:origin_tokens_are_not_the_maze_start") ELSE {})
  \cup (IF Bound(r, "tgt") THEN If(r.tgt.r = "ok" /\ r.tgt.o = CoordToks(ck, m.end), "M:target_tokens_are_not_the_maze_end") ELSE {})
  \cup (IF Bound(r, "path")
        THEN If(r.p1.r = "ok" /\ r.p1.o = FlattenSeq([k \in 1..Len(m.sol) |-> CoordToks(ck, m.sol[k])]), "M:path_tokens_are_not_the_maze_solution") ELSE {})
  \cup (IF Bound(r, "adj")
        THEN If(\/ /\ r.adj.r = "ok" /\ Len(a) % ew = 0
                   /\ LET q == EntrySeq(ck, a, 1, Len(a)) IN Len(q) = Cardinality(E) /\ SeqToSet(q) = E
                \/ /\ E = {} /\ QuirkAdjacent(r.toks, AS, AE, FALSE, FALSE)       \* tolerated: an edgeless maze has adjacent delimiters,
                   /\ Got(r.adj) = Raise("AssertionError"),                        \* the code raises instead of returning []
                "M:adjacency_tokens_are_not_the_maze_connections")
        ELSE {})
GetClauses(r) ==
  LET t == r.toks IN
  If(SliceOK(GetAdjList(t), Got(r.adj), QuirkAdjacent(t, AS, AE, FALSE, FALSE)), "M:get_adj_list_tokens")
  \cup If(SliceOK(GetOrigin(t), Got(r.org), QuirkAdjacent(t, OS, OE, FALSE, FALSE)), "M:get_origin_tokens")
  \cup If(SliceOK(GetTarget(t), Got(r.tgt), QuirkAdjacent(t, TS, TE, FALSE, FALSE)), "M:get_target_tokens")
  \cup If(Got(r.ctx) = GetContext(t), "M:get_context_tokens")
  \cup If(PathOK(t, FALSE, Got(r.p0)) /\ PathOK(t, TRUE, Got(r.p1)), "M:get_path_tokens")
  \cup If([res |-> r.rg.r, adj |-> r.rg.a, non |-> r.rg.n] = TokenRegions(t), "M:get_token_regions")
  \cup (IF "bind" \in DOMAIN r THEN BindClauses(r) ELSE {})
EqClauses(r) ==
  If(/\ [res |-> r.r0.r, val |-> r.r0.v] = EqualExcept(r.a, r.b, FALSE)
     /\ [res |-> r.r1.r, val |-> r.r1.v] = EqualExcept(r.a, r.b, TRUE), "M:equal_except_adj_list_sequence")
  \cup If(r.same = "y" => (r.r0.r = "ok" /\ r.r0.v), "M:equal_except_rejects_two_tokenizations_of_one_maze")

\* ------------------------------------------------------------------ directions, arrays, strings
DirClauses(r) ==
  IF r.which = "card"
  THEN If(Len(r.pts) = 2 /\ [res |-> r.r, val |-> r.v] = Cardinal(r.pts[1], r.pts[2]), "M:get_cardinal_direction")
  ELSE If([res |-> r.r, val |-> r.v] = Relative(r.pts), "M:get_relative_direction")
AdjClauses(r) ==
  If(WellShaped(r.R, r.C, r.conn) /\ \A k \in 1..Len(r.calls) : LET c == r.calls[k] IN
        c.r = "ok" /\ AdjListOK(r.R, r.C, r.conn, c.d0, c.d1, c.o), "M:connection_list_to_adj_list")
  \cup If(r.isc.r = "ok" /\ r.isc.o = IsConnection(r.conn, r.edges), "M:is_connection")
C2SClauses(r) == If(Got(r) = CoordsToStrings(r.items, r.ck, r.mode), "M:coords_to_strings")
C2TClauses(r) == If(r.ut = TupleToks("UT", r.v) /\ r.ix = TupleToks("CTT", r.v), "M:_coord_to_strings")
BoolClauses(r) ==
  If(/\ [res |-> r.r, flat |-> r.flat] = BoolArray(r.cs, r.shape, r.sym)
     /\ r.r = "ok" => r.oshape = r.shape, "M:bool_array_from_string")
PadClauses(r) == If(r.r = "ok" /\ r.s = RemovePadding(r.toks), "M:remove_padding_from_token_str")
LatClauses(r) ==
  LET n == r.n IN
  If(Len(r.edges) = 2 * n * (n - 1) /\ SeqToSet(r.edges) = LatticeEdges(n), "M:lattice_connection_array")
  \* tolerated: lattice_max_degrees(1) answers 2 for the only cell of the 1x1 lattice, which has no neighbour at all
  \cup If(\/ Len(r.deg) = n /\ \A i \in 1..n : Len(r.deg[i]) = n /\ \A j \in 1..n : r.deg[i][j] = MaxDegree(n, <<i - 1, j - 1>>)
          \/ n = 1 /\ r.deg = <<(<<2>>)>>, "M:lattice_max_degrees")
  \cup If(\A k \in 1..Len(r.man) : r.man[k].d = Manhattan(r.man[k].e[1], r.man[k].e[2]), "M:manhattan_distance")

\* side effects on the caller's objects: the harness hands every function its own list / array and compares afterwards
ArgClauses(r) == IF "argmod" \in DOMAIN r /\ r.argmod # <<>> THEN {"M:argument_modified"} ELSE {}
ClausesOf(r) ==
  CASE r.t = "lex" -> LexClauses(r) [] r.t = "s2l" -> S2LClauses(r) [] r.t = "tb" -> TBClauses(r) [] r.t = "get" -> GetClauses(r)
    [] r.t = "eq" -> EqClauses(r) [] r.t = "dir" -> DirClauses(r) [] r.t = "adj" -> AdjClauses(r) [] r.t = "c2s" -> C2SClauses(r)
    [] r.t = "c2t" -> C2TClauses(r) [] r.t = "bool" -> BoolClauses(r) [] r.t = "pad" -> PadClauses(r) [] r.t = "lat" -> LatClauses(r)
    [] OTHER -> {"M:unknown_record"}
Clauses(r) == ArgClauses(r) \cup ClausesOf(r)

VARIABLES l, bad
TInit == l = 1 /\ bad = {} /\ mach = "oracle" /\ inp = <<>> /\ pc = "" /\ reg = <<>>
TNext == /\ l <= Len(Log) /\ l' = l + 1
         /\ bad' = bad \cup (LET cs == Clauses(Log[l]) IN IF cs = {} THEN {} ELSE {[id |-> Log[l].id, c |-> cs]})
         /\ UNCHANGED vars
TSpec == TInit /\ [][TNext]_<<l, bad, vars>>
Done == (l = Len(Log) + 1) =>
          ndJsonSerialize(IOEnv.VERIF_OUT, <<[id |-> -1, c |-> {ToString(Len(Log))}]>> \o SetToSeq(bad))
===============================================================================
